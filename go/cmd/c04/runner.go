package main

import (
	"bufio"
	"bytes"
	"fmt"
	"math"
	"math/bits"
	"os"
	"os/exec"
	"sort"
	"strconv"
	"strings"
	"sync"
	"sync/atomic"
	"time"

	"github.com/pinealctx/neptune/cache"
	"github.com/pinealctx/neptune/cache/tiny"
	"github.com/pinealctx/neptune/remap"

	"nvharness/lib/corr"
	"nvharness/lib/rng"
)

// ---------------------------------------------------------------- adaptors over the two packages

type sval struct{ id, size int }

func (v *sval) Size() int { return v.size }

// pval: a value whose Size() panics
type pval struct{ id int }

func (v *pval) Size() int { panic("Size() of this value panics") }

const faultSz = -987654321987

// mkVal: script value 0 = a nil Value (cannot be sized), size token `p` = a value whose Size() panics
func mkVal(v, sz int) cache.Value {
	switch {
	case v == 0:
		return nil
	case sz == faultSz:
		return &pval{v}
	}
	return &sval{v, sz}
}

// valOf reads a stored value back; a value that could not be sized is shown with size 0 (only a defective cache stores one)
func valOf(x cache.Value) (id, sz int) {
	switch v := x.(type) {
	case *sval:
		return v.id, v.size
	case *pval:
		return v.id, 0
	}
	return 0, 0
}

type item struct{ k, v, sz int }

// Keys of the scripts are naturals; the real caches get keys of several Go types (the cache is keyed by interface{}):
// the natural k is mapped injectively to an int, string, int64, array, uint16/uint32 or struct key, and nilKey to the
// nil interface (a legal map key).
const nilKey = 4242

type structKey struct {
	a int
	b string
}

func goKey(k int) interface{} {
	if k == nilKey {
		return nil
	}
	switch k % 7 {
	case 6:
		return "a-string-key-longer-than-eight-bytes-" + strconv.Itoa(k)
	case 0:
		return k
	case 1:
		return "k" + strconv.Itoa(k)
	case 2:
		return int64(k)
	case 3:
		return [2]int{k, -k}
	case 4:
		if k < 65536 {
			return uint16(k)
		}
		return uint32(k)
	}
	return structKey{k, "x"}
}

func natKey(x interface{}) int {
	switch v := x.(type) {
	case nil:
		return nilKey
	case int:
		return v
	case string:
		n, _ := strconv.Atoi(v[strings.LastIndexAny(v, "k-")+1:])
		return n
	case int64:
		return int(v)
	case [2]int:
		return v[0]
	case uint16:
		return int(v)
	case uint32:
		return int(v)
	case structKey:
		return v.a
	}
	return -1
}

// tiny values are interface{}: the script value 0 stands for a nil value
func tinyVal(v int) interface{} {
	if v == 0 {
		return nil
	}
	return v
}

func tinyInt(x interface{}) int {
	if x == nil {
		return 0
	}
	return x.(int)
}

type lruAPI interface {
	Set(k, v, sz int)
	SetIfAbsent(k, v, sz int)
	SetAndGetRemoved(k, v, sz int) []int
	Get(k int) (int, bool)
	Peek(k int) (int, bool)
	Exist(k int) bool
	Delete(k int) bool
	Clear()
	SetCapacity(c int64)
	Keys() []int
	Items() []item
	Stats() (l, s, c, e int64)
	Accessors() (l, s, c, e int64) // Length(), Size(), Capacity(), Evictions()
	Pkg() string
}

type sizedAd struct{ c *cache.LRUCache }

func (a sizedAd) Pkg() string               { return "cache.LRUCache" }
func (a sizedAd) Set(k, v, sz int)          { a.c.Set(goKey(k), mkVal(v, sz)) }
func (a sizedAd) SetIfAbsent(k, v, sz int)  { a.c.SetIfAbsent(goKey(k), mkVal(v, sz)) }
func (a sizedAd) Exist(k int) bool          { return a.c.Exist(goKey(k)) }
func (a sizedAd) Delete(k int) bool         { return a.c.Delete(goKey(k)) }
func (a sizedAd) Clear()                    { a.c.Clear() }
func (a sizedAd) SetCapacity(c int64)       { a.c.SetCapacity(c) }
func (a sizedAd) Stats() (l, s, c, e int64) { return a.c.Stats() }
func (a sizedAd) Accessors() (l, s, c, e int64) {
	return a.c.Length(), a.c.Size(), a.c.Capacity(), a.c.Evictions()
}
func (a sizedAd) SetAndGetRemoved(k, v, sz int) []int {
	var out []int
	for _, x := range a.c.SetAndGetRemoved(goKey(k), mkVal(v, sz)) {
		id, _ := valOf(x)
		out = append(out, id)
	}
	return out
}
func (a sizedAd) Get(k int) (int, bool) {
	v, ok := a.c.Get(goKey(k))
	if !ok {
		return 0, false
	}
	id, _ := valOf(v)
	return id, true
}
func (a sizedAd) Peek(k int) (int, bool) {
	v, ok := a.c.Peek(goKey(k))
	if !ok {
		return 0, false
	}
	id, _ := valOf(v)
	return id, true
}
func (a sizedAd) Keys() []int {
	var out []int
	for _, k := range a.c.Keys() {
		out = append(out, natKey(k))
	}
	return out
}
func (a sizedAd) Items() []item {
	var out []item
	for _, it := range a.c.Items() {
		id, sz := valOf(it.Value)
		out = append(out, item{natKey(it.Key), id, sz})
	}
	return out
}

type tinyAd struct{ c *tiny.LRUCache }

func (a tinyAd) Pkg() string               { return "tiny.LRUCache" }
func (a tinyAd) Set(k, v, sz int)          { a.c.Set(goKey(k), tinyVal(v)) }
func (a tinyAd) SetIfAbsent(k, v, sz int)  { a.c.SetIfAbsent(goKey(k), tinyVal(v)) }
func (a tinyAd) Exist(k int) bool          { return a.c.Exist(goKey(k)) }
func (a tinyAd) Delete(k int) bool         { return a.c.Delete(goKey(k)) }
func (a tinyAd) Clear()                    { a.c.Clear() }
func (a tinyAd) SetCapacity(c int64)       { a.c.SetCapacity(c) }
func (a tinyAd) Stats() (l, s, c, e int64) { return a.c.Stats() }
func (a tinyAd) Accessors() (l, s, c, e int64) {
	return a.c.Length(), a.c.Size(), a.c.Capacity(), a.c.Evictions()
}
func (a tinyAd) SetAndGetRemoved(k, v, sz int) []int {
	var out []int
	for _, x := range a.c.SetAndGetRemoved(goKey(k), tinyVal(v)) {
		out = append(out, tinyInt(x))
	}
	return out
}
func (a tinyAd) Get(k int) (int, bool) {
	v, ok := a.c.Get(goKey(k))
	if !ok {
		return 0, false
	}
	return tinyInt(v), true
}
func (a tinyAd) Peek(k int) (int, bool) {
	v, ok := a.c.Peek(goKey(k))
	if !ok {
		return 0, false
	}
	return tinyInt(v), true
}
func (a tinyAd) Keys() []int {
	var out []int
	for _, k := range a.c.Keys() {
		out = append(out, natKey(k))
	}
	return out
}
func (a tinyAd) Items() []item {
	var out []item
	for _, it := range a.c.Items() {
		out = append(out, item{natKey(it.Key), tinyInt(it.Value), 1})
	}
	return out
}

// wide facade (the five interface methods only)
type wideAPI interface {
	Set(k, v, sz int)
	Get(k int) (int, bool)
	Peek(k int) (int, bool)
	Exist(k int) bool
	Delete(k int) bool
	Pkg() string
}

// wideKey: the Go key of script key k on a wide cache with table routing — every key type remap supports and a map
// can hold: non-negative and NEGATIVE ints, int64 near MinInt64, uint64 above 2^63, short and long strings.
// (Array / struct keys are not supported by remap: its ToBytes panics "unsupported.type.for.slot" — outside.)
func wideKey(k int) interface{} {
	switch k % 6 {
	case 1:
		return -k - 1
	case 2:
		return int64(math.MinInt64) + int64(k)
	case 3:
		return uint64(math.MaxUint64) - uint64(k)
	case 4:
		return "w" + strconv.Itoa(k)
	case 5:
		return "wide-key-longer-than-eight-bytes-" + strconv.Itoa(k)
	}
	return k
}

type wideSized struct {
	c     cache.LRUFacade
	mixed bool
}

func (a wideSized) key(k int) interface{} {
	if a.mixed {
		return wideKey(k)
	}
	return k
}

func (a wideSized) Pkg() string       { return "cache.WideLRUCache" }
func (a wideSized) Set(k, v, sz int)  { a.c.Set(a.key(k), &sval{v, sz}) }
func (a wideSized) Exist(k int) bool  { return a.c.Exist(a.key(k)) }
func (a wideSized) Delete(k int) bool { return a.c.Delete(a.key(k)) }
func (a wideSized) Get(k int) (int, bool) {
	v, ok := a.c.Get(a.key(k))
	if !ok {
		return 0, false
	}
	return v.(*sval).id, true
}
func (a wideSized) Peek(k int) (int, bool) {
	v, ok := a.c.Peek(a.key(k))
	if !ok {
		return 0, false
	}
	return v.(*sval).id, true
}

type wideTiny struct {
	c     tiny.LRU
	mixed bool
}

func (a wideTiny) key(k int) interface{} {
	if a.mixed {
		return wideKey(k)
	}
	return k
}

func (a wideTiny) Pkg() string       { return "tiny.WideLRUCache" }
func (a wideTiny) Set(k, v, sz int)  { a.c.Set(a.key(k), v) }
func (a wideTiny) Exist(k int) bool  { return a.c.Exist(a.key(k)) }
func (a wideTiny) Delete(k int) bool { return a.c.Delete(a.key(k)) }
func (a wideTiny) Get(k int) (int, bool) {
	v, ok := a.c.Get(a.key(k))
	if !ok {
		return 0, false
	}
	return v.(int), true
}
func (a wideTiny) Peek(k int) (int, bool) {
	v, ok := a.c.Peek(a.key(k))
	if !ok {
		return 0, false
	}
	return v.(int), true
}

// ---------------------------------------------------------------- snapshots and printing

type snap struct {
	keys       []int
	items      []item
	l, s, c, e int64
	acc        [4]int64 // Length(), Size(), Capacity(), Evictions() called one by one
}

func (sn snap) itemSize(k int) int {
	it, _ := lookup(sn.items, k)
	return it.sz
}

func takeSnap(a lruAPI) snap {
	var sn snap
	sn.keys = a.Keys()
	sn.items = a.Items()
	sn.l, sn.s, sn.c, sn.e = a.Stats()
	sn.acc[0], sn.acc[1], sn.acc[2], sn.acc[3] = a.Accessors()
	return sn
}

func ints(xs []int) string {
	var b []string
	for _, x := range xs {
		b = append(b, strconv.Itoa(x))
	}
	return "[" + strings.Join(b, ",") + "]"
}

func (sn snap) String() string {
	var it []string
	for _, x := range sn.items {
		it = append(it, fmt.Sprintf("%d:%d:%d", x.k, x.v, x.sz))
	}
	return fmt.Sprintf("K=%s I=[%s] S=%d,%d,%d,%d A=%d,%d,%d,%d", ints(sn.keys), strings.Join(it, ","), sn.l, sn.s, sn.c, sn.e,
		sn.acc[0], sn.acc[1], sn.acc[2], sn.acc[3])
}

// strict decimal parsing, the same language the Lean oracle accepts (String.toNat? / toInt?)
func parseNat(s string) (int, bool) {
	if s == "" || len(s) > 9 {
		return 0, false
	}
	for _, c := range s {
		if c < '0' || c > '9' {
			return 0, false
		}
	}
	n, err := strconv.Atoi(s)
	return n, err == nil
}

func parseInt(s string) (int64, bool) {
	neg := strings.HasPrefix(s, "-")
	t := strings.TrimPrefix(s, "-")
	if t == "" || len(t) > 19 {
		return 0, false
	}
	for _, c := range t {
		if c < '0' || c > '9' {
			return 0, false
		}
	}
	n, err := strconv.ParseInt(s, 10, 64)
	_ = neg
	return n, err == nil
}

// ---------------------------------------------------------------- one script

type runner struct {
	mode    string // "", "single", "wide"
	tiny    bool
	a       lruAPI
	w       wideAPI
	regime  bool // all sizes/capacities so far >= 0 (the property's quantifier)
	hits    []corr.Hit
	seenHit map[string]bool
	// wide bookkeeping
	n, u        int
	wcap        int64
	capOverflow bool
	concCap     int64         // capacity named by the script's `new` / `wnew` line
	recency     map[int][]int // per shard: keys from most to least recently used, as the calls so far imply
	route       []int         // shard of key k (k < u)
	shardCap    int64
	present     map[int]item // key -> entry as of the last Peek listing
}

func (r *runner) hit(key, what string) {
	if r.seenHit[key] {
		return
	}
	if len(what) > 1600 {
		what = what[:1600] + " …"
	}
	r.seenHit[key] = true
	r.hits = append(r.hits, corr.Hit{Key: key, What: what})
}

func guard(f func()) (panicked bool) {
	defer func() {
		if x := recover(); x != nil {
			panicked = true
		}
	}()
	f()
	return false
}

func (r *runner) line(line string) string {
	f := strings.Fields(line)
	if len(f) == 0 {
		return "bad-op"
	}
	switch f[0] {
	case "reset":
		if len(f) != 1 {
			return "bad-op"
		}
		r.mode = ""
		return "ok"
	case "new":
		if len(f) != 3 || (f[1] != "lru" && f[1] != "tiny") {
			return "bad-op"
		}
		c, ok := parseInt(f[2])
		if !ok {
			return "bad-op"
		}
		r.mode, r.tiny, r.regime, r.concCap = "single", f[1] == "tiny", c >= 0, c
		if r.tiny {
			r.a = tinyAd{tiny.NewLRUCache(c)}
		} else {
			r.a = sizedAd{cache.NewLRUCache(c)}
		}
		return "ok"
	case "wnew":
		return r.wnew(f)
	case "conc":
		if len(f) != 4 || (r.mode != "single" && r.mode != "wide") {
			return "bad-op"
		}
		seed, ok1 := parseNat(f[1])
		th, ok2 := parseNat(f[2])
		ops, ok3 := parseNat(f[3])
		if !ok1 || !ok2 || !ok3 {
			return "bad-op"
		}
		out := r.conc(seed, th, ops)
		return out
	}
	if f[0] == "fill" {
		return r.fill(f)
	}
	// `set|sia|sgr k v p`: the value's Size() panics
	fault := len(f) == 4 && f[3] == "p" && (f[0] == "set" || f[0] == "sia" || f[0] == "sgr")
	if fault {
		f = []string{f[0], f[1], f[2], "0"}
	}
	op, args, ok := parseOp(f)
	if !ok || r.mode == "" {
		return "bad-op"
	}
	if r.mode == "wide" {
		if fault {
			return "bad-op"
		}
		return r.wideOp(op, args)
	}
	if fault {
		if r.tiny {
			return "bad-op" // tiny never sizes a value
		}
		args[2] = faultSz
	}
	return r.singleOp(op, args)
}

// parseOp mirrors Oracle/C04.lean parseOp: op name + exact arity + strict numerals.
func parseOp(f []string) (string, []int64, bool) {
	arity := map[string]int{"set": 3, "sia": 3, "sgr": 3, "get": 1, "peek": 1, "exist": 1, "del": 1, "clear": 0, "cap": 1, "keys": 0, "items": 0, "stats": 0}
	n, ok := arity[f[0]]
	if !ok || len(f) != n+1 {
		return "", nil, false
	}
	var args []int64
	for i, t := range f[1:] {
		signedArg := (n == 3 && i == 2) || f[0] == "cap"
		if signedArg {
			v, ok := parseInt(t)
			if !ok {
				return "", nil, false
			}
			args = append(args, v)
		} else {
			v, ok := parseNat(t)
			if !ok {
				return "", nil, false
			}
			args = append(args, int64(v))
		}
	}
	return f[0], args, true
}

// fill a n sz: Set(a+i, value a+i+1, size sz) for i = 0 … n-1; the line answers like the last of these Sets
func (r *runner) fill(f []string) string {
	if len(f) != 4 || r.mode != "single" {
		return "bad-op"
	}
	a, ok1 := parseNat(f[1])
	n, ok2 := parseNat(f[2])
	sz, ok3 := parseInt(f[3])
	if !ok1 || !ok2 || !ok3 || n == 0 || n > 5000 || a > 100000 {
		return "bad-op"
	}
	for i := 0; i < n-1; i++ {
		k := a + i
		if guard(func() { r.a.Set(k, k+1, int(sz)) }) {
			if sz < 0 {
				r.regime = false
			}
			if r.regime {
				r.hit("C04:"+r.a.Pkg()+":Set:panics", fmt.Sprintf("set %d %d %d while filling", k, k+1, sz))
			}
		}
	}
	return r.singleOp("set", []int64{int64(a + n - 1), int64(a + n), sz})
}

func (r *runner) singleOp(op string, args []int64) string {
	a := r.a
	var before snap
	if guard(func() { before = takeSnap(a) }) {
		return "panic"
	}
	switch op {
	case "set", "sia", "sgr":
		if args[2] < 0 && args[2] != faultSz {
			r.regime = false
		}
	case "cap":
		if args[0] < 0 {
			r.regime = false
		}
	}
	res := ""
	var removed []int
	var gotV int
	var gotOK bool
	p := guard(func() {
		switch op {
		case "set":
			a.Set(int(args[0]), int(args[1]), int(args[2]))
			res = "ok"
		case "sia":
			a.SetIfAbsent(int(args[0]), int(args[1]), int(args[2]))
			res = "ok"
		case "sgr":
			removed = a.SetAndGetRemoved(int(args[0]), int(args[1]), int(args[2]))
			res = "rm=" + ints(removed)
		case "get", "peek":
			if op == "get" {
				gotV, gotOK = a.Get(int(args[0]))
			} else {
				gotV, gotOK = a.Peek(int(args[0]))
			}
			res = "miss"
			if gotOK {
				res = "v=" + strconv.Itoa(gotV)
			}
		case "exist":
			gotOK = a.Exist(int(args[0]))
			res = strconv.FormatBool(gotOK)
		case "del":
			gotOK = a.Delete(int(args[0]))
			res = strconv.FormatBool(gotOK)
		case "clear":
			a.Clear()
			res = "ok"
		case "cap":
			a.SetCapacity(args[0])
			res = "ok"
		case "keys":
			res = "K=" + ints(a.Keys())
		case "items":
			var it []string
			for _, x := range a.Items() {
				it = append(it, fmt.Sprintf("%d:%d", x.k, x.v))
			}
			res = "I=[" + strings.Join(it, ",") + "]"
		case "stats":
			l, s, c, e := a.Stats()
			res = fmt.Sprintf("S=%d,%d,%d,%d", l, s, c, e)
		}
	})
	if p {
		res = "panic"
	}
	var after snap
	if guard(func() { after = takeSnap(a) }) {
		return "panic"
	}
	faulting := (op == "set" || op == "sia" || op == "sgr") && !r.tiny && (args[2] == faultSz || args[1] == 0)
	if faulting {
		if _, present := lookup(before.items, int(args[0])); op == "sia" && present {
			args[2] = int64(before.itemSize(int(args[0]))) // SetIfAbsent on a present key never sizes the value: plain refresh
		} else {
			// the call must fail and leave the cache exactly as it was
			if r.regime && (!p || before.String() != after.String()) {
				r.hit("C04:"+a.Pkg()+":failed-set-leaves-entry", fmt.Sprintf("%s of key %d with a value whose Size() panics (or a nil value): panicked=%v; before %s, after %s", methodOf[op], args[0], p, before, after))
			}
			return res + " | " + after.String()
		}
	}
	if r.regime {
		r.monitor(op, args, before, after, res, removed, gotV, gotOK, p)
	}
	return res + " | " + after.String()
}

// ---------------------------------------------------------------- property monitors (single cache)

func sumSizes(xs []item) int64 {
	var s int64
	for _, x := range xs {
		s += int64(x.sz)
	}
	return s
}

func without(xs []item, k int) []item {
	var out []item
	for _, x := range xs {
		if x.k != k {
			out = append(out, x)
		}
	}
	return out
}

func lookup(xs []item, k int) (item, bool) {
	for _, x := range xs {
		if x.k == k {
			return x, true
		}
	}
	return item{}, false
}

func sameItems(a, b []item) bool {
	if len(a) != len(b) {
		return false
	}
	for i := range a {
		if a[i] != b[i] {
			return false
		}
	}
	return true
}

var methodOf = map[string]string{"set": "Set", "sia": "SetIfAbsent", "sgr": "SetAndGetRemoved", "get": "Get", "peek": "Peek",
	"exist": "Exist", "del": "Delete", "clear": "Clear", "cap": "SetCapacity", "keys": "Keys", "items": "Items", "stats": "Stats"}

// monitor restates the property on the observable before/after listings, in the most-recent-first reading:
// after an operation the cache holds the longest prefix of the refreshed recency order that fits the capacity.
func (r *runner) monitor(op string, args []int64, before, after snap, res string, removed []int, gotV int, gotOK, panicked bool) {
	pkg := r.a.Pkg()
	m := methodOf[op]
	key := func(what string) string {
		switch what {
		case "size-exceeds-capacity", "size-accounting", "keys-items-listing", "accessors-disagree-with-Stats":
			return "C04:" + pkg + ":state:" + what // one root cause, whichever method shows it first
		case "evicts-not-least-recent", "needless-eviction", "evictions-count", "removed-list":
			return "C04:" + pkg + ":checkCapacity:" + what
		}
		return "C04:" + pkg + ":" + m + ":" + what
	}
	ctx := fmt.Sprintf("%s %v: before %s, after %s, result %s", op, args, before, after, res)
	if panicked {
		r.hit(key("panics"), ctx)
		return
	}
	// the int64 size counter: the true sum of the item sizes (computed without wrap-around) must be representable
	if !r.tiny {
		var hi, lo uint64
		for _, it := range after.items {
			var carry uint64
			lo, carry = bits.Add64(lo, uint64(it.sz), 0)
			hi += carry
		}
		if hi != 0 || lo > math.MaxInt64 {
			r.hit("C04:"+pkg+":size-counter-overflows", fmt.Sprintf("the item sizes sum to %d*2^64+%d > MaxInt64: Size()=%d, capacity %d, nothing evicted; %s", hi, lo, after.s, after.c, ctx))
			r.regime = false // the counter is off from here on: everything later in this script is the same root cause
			return
		}
	}
	if after.acc != [4]int64{after.l, after.s, after.c, after.e} {
		r.hit(key("accessors-disagree-with-Stats"), fmt.Sprintf("Length/Size/Capacity/Evictions = %v; %s", after.acc, ctx))
	}
	// state-wide clauses
	if after.s > after.c {
		r.hit(key("size-exceeds-capacity"), ctx)
	}
	want := sumSizes(after.items)
	if r.tiny {
		want = int64(len(after.items))
	}
	if after.s != want || after.l != int64(len(after.items)) {
		r.hit(key("size-accounting"), fmt.Sprintf("Size()=%d Length()=%d but the items sum to %d (%d items); %s", after.s, after.l, want, len(after.items), ctx))
	}
	seen := map[int]bool{}
	for i, it := range after.items {
		if i >= len(after.keys) || after.keys[i] != it.k || seen[it.k] {
			r.hit(key("keys-items-listing"), ctx)
			break
		}
		seen[it.k] = true
	}
	if len(after.keys) != len(after.items) {
		r.hit(key("keys-items-listing"), ctx)
	}
	// expected recency order before making it fit
	var k, v, sz int
	if len(args) > 0 {
		k = int(args[0])
	}
	if len(args) == 3 {
		v, sz = int(args[1]), int(args[2])
		if r.tiny {
			sz = 1
		}
	}
	old, present := lookup(before.items, k)
	pre := before.items
	capacity := before.c
	mayEvict := false
	switch op {
	case "set", "sgr":
		pre = append([]item{{k, v, sz}}, without(before.items, k)...)
		mayEvict = true
	case "sia":
		if present {
			pre = append([]item{old}, without(before.items, k)...)
		} else {
			pre = append([]item{{k, v, sz}}, before.items...)
			mayEvict = true
		}
	case "get":
		if present {
			pre = append([]item{old}, without(before.items, k)...)
		}
		if gotOK != present || (present && gotV != old.v) {
			r.hit(key("wrong-result"), ctx)
		}
	case "peek":
		if gotOK != present || (present && gotV != old.v) {
			r.hit(key("wrong-result"), ctx)
		}
	case "exist":
		if gotOK != present {
			r.hit(key("wrong-result"), ctx)
		}
	case "del":
		pre = without(before.items, k)
		if gotOK != present {
			r.hit(key("wrong-result"), ctx)
		}
	case "clear":
		pre = nil
	case "cap":
		capacity = args[0]
		mayEvict = true
	}
	if after.c != capacity {
		r.hit(key("capacity-changed"), ctx)
	}
	// survivors are a prefix of the refreshed order (evictions take strictly the least recently used)
	if len(after.items) > len(pre) || !sameItems(after.items, pre[:len(after.items)]) {
		what := "recency-order"
		if mayEvict && len(after.items) < len(pre) {
			what = "evicts-not-least-recent"
		}
		r.hit(key(what), fmt.Sprintf("expected a prefix of %v; %s", pre, ctx))
		return
	}
	evicted := pre[len(after.items):]
	if len(evicted) > 0 {
		if !mayEvict {
			r.hit(key("unexpected-eviction"), ctx)
		} else if sumSizes(after.items)+int64(evicted[0].sz) <= capacity {
			r.hit(key("needless-eviction"), fmt.Sprintf("entry %v evicted although it fits (capacity %d); %s", evicted[0], capacity, ctx))
		}
	}
	if after.e-before.e != int64(len(evicted)) {
		r.hit(key("evictions-count"), fmt.Sprintf("%d entries evicted, Evictions() moved by %d; %s", len(evicted), after.e-before.e, ctx))
	}
	if op == "sgr" {
		var wantRm []int
		for i := len(evicted) - 1; i >= 0; i-- {
			wantRm = append(wantRm, evicted[i].v)
		}
		if ints(wantRm) != ints(removed) {
			r.hit(key("removed-list"), fmt.Sprintf("removed %v reported as %v; %s", wantRm, removed, ctx))
		}
	}
}

// ---------------------------------------------------------------- concurrent callers: a genuinely parallel stress run
//
// `conc <seed> <threads> <ops>` starts a CHILD PROCESS of this binary (`c04 concchild …`) in which <threads> goroutines
// hammer one fresh cache of the script's kind and capacity (or a wide cache of the script's shard count) without any
// coordination. At quiescence the child checks: size <= capacity, size = sum of item sizes (tiny: = length),
// Length = len(Keys) = len(Items), no duplicate key; listings taken while others mutate must be duplicate-free.
// A crash of the child (fatal "concurrent map writes", nil dereference, …) is a hit `C04:concurrency:crash`, a broken
// invariant `C04:concurrency:invariant`. The child exceeding its time limit is a HARNESS ERROR (exit 2), never a verdict.

const concLimit = 120 * time.Second

func (r *runner) conc(seed, threads, ops int) string {
	if threads < 1 || threads > 16 || ops > 5000 {
		return "bad-op"
	}
	kind := "lru"
	if r.tiny {
		kind = "tiny"
	}
	shards := 0
	if r.mode == "wide" {
		shards = r.n
	}
	exe, err := os.Executable()
	if err != nil {
		fmt.Fprintln(os.Stderr, "c04: cannot locate own executable:", err)
		os.Exit(2)
	}
	cmd := exec.Command(exe, "concchild", kind, strconv.FormatInt(r.concCap, 10), strconv.Itoa(seed), strconv.Itoa(threads), strconv.Itoa(ops), strconv.Itoa(shards))
	var out, errb bytes.Buffer
	cmd.Stdout, cmd.Stderr = &out, &errb
	if err := cmd.Start(); err != nil {
		fmt.Fprintln(os.Stderr, "c04: cannot start the stress child:", err)
		os.Exit(2)
	}
	done := make(chan error, 1)
	go func() { done <- cmd.Wait() }()
	var werr error
	select {
	case werr = <-done:
	case <-time.After(concLimit):
		_ = cmd.Process.Kill()
		fmt.Fprintf(os.Stderr, "c04: stress child (%s) did not finish within %v — harness error, no verdict\n", strings.Join(cmd.Args[1:], " "), concLimit)
		os.Exit(2)
	}
	r.mode = "" // the script's cache is not touched; nothing after `conc` is meaningful
	res := strings.TrimSpace(out.String())
	what := fmt.Sprintf("%d goroutines x %d calls on a %s cache of capacity %d (%d shards)", threads, ops, kind, r.concCap, shards)
	switch {
	case werr != nil:
		tail := errb.String()
		if len(tail) > 600 {
			tail = tail[:600]
		}
		r.hit("C04:concurrency:crash", what+": the process died: "+strings.ReplaceAll(tail, "\n", " | "))
		return "crashed"
	case res == "inv-ok":
		return "inv-ok"
	default:
		r.hit("C04:concurrency:invariant", what+": "+res)
		return "inv-violated"
	}
}

// concChild is the body of the child process.
func concChild(args []string) {
	if len(args) != 6 {
		os.Exit(3)
	}
	kind := args[0]
	capacity, _ := strconv.ParseInt(args[1], 10, 64)
	seed, _ := strconv.Atoi(args[2])
	threads, _ := strconv.Atoi(args[3])
	ops, _ := strconv.Atoi(args[4])
	shards, _ := strconv.Atoi(args[5])
	var mu sync.Mutex
	bad := ""
	fail := func(s string) {
		mu.Lock()
		if bad == "" {
			bad = s
		}
		mu.Unlock()
	}
	var a lruAPI
	var w wideAPI
	switch {
	case shards > 0 && kind == "tiny":
		w = wideTiny{tiny.NeWideLRU(capacity, remap.WithPrime(uint64(shards))), false}
	case shards > 0:
		w = wideSized{cache.NeWideLRUCache(capacity, remap.WithPrime(uint64(shards))), false}
	case kind == "tiny":
		a = tinyAd{tiny.NewLRUCache(capacity)}
	default:
		a = sizedAd{cache.NewLRUCache(capacity)}
	}
	const universe = 24
	var wg sync.WaitGroup
	for t := 0; t < threads; t++ {
		wg.Add(1)
		go func(t int) {
			defer wg.Done()
			g := rng.New(uint64(seed)*977 + uint64(t))
			for i := 0; i < ops; i++ {
				k, v, sz := g.Intn(universe), t*100000+i+1, g.Intn(4)
				if w != nil {
					switch g.Intn(6) {
					case 0, 1:
						w.Set(k, v, 1)
					case 2:
						w.Get(k)
					case 3:
						w.Peek(k)
					case 4:
						w.Exist(k)
					default:
						w.Delete(k)
					}
					continue
				}
				switch g.Intn(11) {
				case 0, 1:
					a.Set(k, v, sz)
				case 2:
					a.SetIfAbsent(k, v, sz)
				case 3:
					a.SetAndGetRemoved(k, v, sz)
				case 4:
					a.Get(k)
				case 5:
					a.Peek(k)
				case 6:
					a.Delete(k)
				case 7:
					a.SetCapacity(capacity + int64(g.Intn(3)))
				case 8:
					a.Exist(k)
				case 9:
					ks := a.Keys()
					seen := map[int]bool{}
					for _, q := range ks {
						if seen[q] {
							fail("duplicate key in Keys() taken while others mutate")
						}
						seen[q] = true
					}
				default:
					seen := map[int]bool{}
					for _, it := range a.Items() {
						if seen[it.k] {
							fail("duplicate key in Items() taken while others mutate")
						}
						seen[it.k] = true
					}
				}
			}
		}(t)
	}
	wg.Wait()
	if w != nil {
		per := capacity/int64(shards) + 1
		count := map[int]int64{}
		for k := 0; k < universe; k++ {
			if _, ok := w.Peek(k); ok {
				count[k%shards]++
			}
		}
		for sh, c := range count {
			if c > per {
				fail(fmt.Sprintf("shard %d holds %d unit items, per-shard capacity %d", sh, c, per))
			}
		}
	} else {
		sn := takeSnap(a)
		want := sumSizes(sn.items)
		if kind == "tiny" {
			want = int64(len(sn.items))
		}
		seen := map[int]bool{}
		for _, k := range sn.keys {
			if seen[k] {
				fail("duplicate key at quiescence")
			}
			seen[k] = true
		}
		switch {
		case sn.s != want:
			fail(fmt.Sprintf("Size()=%d but the items sum to %d", sn.s, want))
		case sn.l != int64(len(sn.keys)) || len(sn.keys) != len(sn.items):
			fail(fmt.Sprintf("Length()=%d, len(Keys())=%d, len(Items())=%d", sn.l, len(sn.keys), len(sn.items)))
		case sn.s > sn.c:
			fail(fmt.Sprintf("size %d exceeds capacity %d at quiescence", sn.s, sn.c))
		}
	}
	// second phase (single caches): every snapshot a reader takes WHILE writers run must be a state some linearisation
	// passes through. Writers store unit-size items only and never change the capacity, so in every such state
	// length == size <= capacity; Stats() must never show anything else, Keys()/Items() never a duplicate.
	if w == nil && bad == "" {
		var b lruAPI
		if kind == "tiny" {
			b = tinyAd{tiny.NewLRUCache(capacity)}
		} else {
			b = sizedAd{cache.NewLRUCache(capacity)}
		}
		var running int32 = int32(threads)
		var wg2 sync.WaitGroup
		for t := 0; t < threads; t++ {
			wg2.Add(1)
			go func(t int) {
				defer wg2.Done()
				defer atomic.AddInt32(&running, -1)
				g := rng.New(uint64(seed)*31 + uint64(t) + 1000)
				for i := 0; i < 4*ops; i++ {
					k, v := g.Intn(universe), t*100000+i+1
					switch g.Intn(6) {
					case 0, 1:
						b.Set(k, v, 1)
					case 2:
						b.SetIfAbsent(k, v, 1)
					case 3:
						b.SetAndGetRemoved(k, v, 1)
					case 4:
						b.Get(k)
					default:
						b.Delete(k)
					}
				}
			}(t)
		}
		for rd := 0; rd < 2; rd++ {
			wg2.Add(1)
			go func(rd int) {
				defer wg2.Done()
				for n := 0; atomic.LoadInt32(&running) > 0 || n < 10; n++ {
					l, sz, c, _ := b.Stats()
					if l != sz || sz > c {
						fail(fmt.Sprintf("Stats() taken while writers run shows length %d, size %d, capacity %d — with unit-size items no cache state has length != size or size > capacity", l, sz, c))
						return
					}
					seen := map[int]bool{}
					for _, q := range b.Keys() {
						if seen[q] {
							fail("duplicate key in Keys() taken while writers run")
							return
						}
						seen[q] = true
					}
					if its := b.Items(); int64(len(its)) > c {
						fail(fmt.Sprintf("Items() taken while writers run lists %d unit items, capacity %d", len(its), c))
						return
					}
				}
			}(rd)
		}
		wg2.Wait()
	}
	if bad != "" {
		fmt.Println("inv-violated: " + bad)
		return
	}
	fmt.Println("inv-ok")
}

// ---------------------------------------------------------------- wide caches

const maxShards = 4096

func (r *runner) wnew(f []string) string {
	if len(f) < 6 || (f[1] != "lru" && f[1] != "tiny") {
		return "bad-op"
	}
	c, ok := parseInt(f[2])
	n, ok2 := parseNat(f[3])
	u, ok3 := parseNat(f[4])
	if !ok || !ok2 || !ok3 || n == 0 || n > maxShards || u > 64 {
		return "bad-op"
	}
	xhash, mixed, noOpts := false, false, false
	route := make([]int, u)
	switch {
	case (f[5] == "mod" || f[5] == "dmod") && len(f) == 6:
		if f[5] == "dmod" && n != 73 {
			return "bad-op"
		}
		noOpts = f[5] == "dmod"
		for k := range route {
			route[k] = k % n
		}
	case (f[5] == "tab" || f[5] == "tabs") && len(f) == 7:
		xhash = f[5] == "tab"
		mixed = true
		parts := strings.Split(f[6], ",")
		if len(parts) != u {
			return "bad-op"
		}
		for k, p := range parts {
			v, ok := parseNat(p)
			if !ok || v >= n {
				return "bad-op"
			}
			route[k] = v
		}
	default:
		return "bad-op"
	}
	r.mode, r.tiny, r.regime, r.concCap = "wide", f[1] == "tiny", c >= 0, c
	// the intended per-shard capacity capacity/shards + 1, without the int64 wrap-around
	r.n, r.u, r.route, r.shardCap, r.wcap = n, u, route, c/int64(n), c
	r.capOverflow = r.shardCap == math.MaxInt64
	if !r.capOverflow {
		r.shardCap++
	}
	r.present = map[int]item{}
	r.recency = map[int][]int{}
	opt := remap.WithPrime(uint64(n))
	switch {
	case noOpts && r.tiny:
		// built without any option: must come out with remap's default 73 shards, whoever used WithPrime before in this process
		r.w = wideTiny{tiny.NeWideLRU(c), false}
	case noOpts:
		r.w = wideSized{cache.NeWideLRUCache(c), false}
	case r.tiny && xhash:
		r.w = wideTiny{tiny.NewWideXHashLRU(c, opt), mixed}
	case r.tiny:
		r.w = wideTiny{tiny.NeWideLRU(c, opt), mixed}
	case xhash:
		r.w = wideSized{cache.NewWideXHashLRUCache(c, opt), mixed}
	default:
		r.w = wideSized{cache.NeWideLRUCache(c, opt), mixed}
	}
	return "ok"
}

func (r *runner) wideOp(op string, args []int64) string {
	switch op {
	case "set", "get", "peek", "exist", "del":
	default:
		return "bad-op"
	}
	w := r.w
	k := int(args[0])
	if k >= r.u {
		return "bad-op"
	}
	if op == "set" && args[2] < 0 {
		r.regime = false
	}
	res := ""
	var gotV int
	var gotOK bool
	p := guard(func() {
		switch op {
		case "set":
			w.Set(k, int(args[1]), int(args[2]))
			res = "ok"
		case "get", "peek":
			if op == "get" {
				gotV, gotOK = w.Get(k)
			} else {
				gotV, gotOK = w.Peek(k)
			}
			res = "miss"
			if gotOK {
				res = "v=" + strconv.Itoa(gotV)
			}
		case "exist":
			gotOK = w.Exist(k)
			res = strconv.FormatBool(gotOK)
		case "del":
			gotOK = w.Delete(k)
			res = strconv.FormatBool(gotOK)
		}
	})
	if p {
		switch {
		case r.regime && r.capOverflow:
			// capacity >= 0, yet capacity/shards + 1 is negative: the int64 addition wrapped around
			r.hit("C04:"+w.Pkg()+":newWideLRUCache:per-shard-capacity-overflows", fmt.Sprintf("%s %v panics: a wide cache of capacity %d on %d shard(s) gives every shard the capacity capacity/shards+1 = MinInt64 (int64 wrap-around)", op, args, r.wcap, r.n))
		case r.regime:
			r.hit("C04:"+w.Pkg()+":"+methodOf[op]+":panics", fmt.Sprintf("%s %v on a wide cache of %d shards", op, args, r.n))
		}
		return "panic"
	}
	// Peek of every key of the universe: the complete observable content
	now := map[int]item{}
	var cells []string
	dp := guard(func() {
		for q := 0; q < r.u; q++ {
			if v, ok := w.Peek(q); ok {
				sz := 1
				if old, had := r.present[q]; had && old.v == v {
					sz = old.sz
				}
				if op == "set" && q == k && v == int(args[1]) && !r.tiny {
					sz = int(args[2])
				}
				now[q] = item{q, v, sz}
				cells = append(cells, fmt.Sprintf("%d:%d", q, v))
			}
		}
	})
	if dp {
		return "panic"
	}
	if r.regime && k < r.u {
		r.wideMonitor(op, args, now, res, gotV, gotOK)
	}
	r.present = now
	return res + " | P=[" + strings.Join(cells, ",") + "]"
}

// wideMonitor: per shard the capacity bound and no needless eviction; other shards untouched; lookups agree with the last listing.
func (r *runner) wideMonitor(op string, args []int64, now map[int]item, res string, gotV int, gotOK bool) {
	pkg := r.w.Pkg()
	key := func(what string) string { return "C04:" + pkg + ":" + methodOf[op] + ":" + what }
	k := int(args[0])
	sh := r.route[k]
	ctx := fmt.Sprintf("%s %v (shard %d of %d, per-shard capacity %d): before %v, after %v, result %s", op, args, sh, r.n, r.shardCap, r.present, now, res)
	old, present := r.present[k]
	switch op {
	case "get", "peek":
		if gotOK != present || (present && gotV != old.v) {
			r.hit(key("wrong-result"), ctx)
		}
	case "exist", "del":
		if gotOK != present {
			r.hit(key("wrong-result"), ctx)
		}
	}
	var beforeOthers int64 // size of the shard's other entries before the op
	lost := 0
	for q, it := range r.present {
		if r.route[q] != sh {
			if now[q] != it {
				r.hit(key("cross-shard-interference"), ctx)
			}
			continue
		}
		if q == k {
			continue
		}
		beforeOthers += int64(it.sz)
		if _, still := now[q]; !still {
			lost++
		} else if now[q] != it {
			r.hit(key("other-entry-changed"), ctx)
		}
	}
	for q := range now {
		if _, had := r.present[q]; !had && q != k {
			r.hit(key("entry-appeared"), ctx)
		}
	}
	var total int64
	for q, it := range now {
		if r.route[q] == sh {
			total += int64(it.sz)
		}
	}
	if total > r.shardCap {
		r.hit(key("shard-exceeds-capacity"), ctx)
	}
	// recency inside the shard, maintained from the calls alone: Set/Get refresh, Peek/Exist do not
	var order []int
	for _, q := range r.recency[sh] {
		if q != k {
			order = append(order, q)
		}
	}
	if op == "set" && lost > 0 {
		// the entries that disappeared must be the least recently used ones of the shard
		for i, q := range order {
			_, still := now[q]
			if !still && i < len(order)-lost {
				r.hit("C04:"+pkg+":shard:evicts-not-least-recent", fmt.Sprintf("key %d was evicted although the shard's order of use (most recent first, without the key being set) is %v; %s", q, order, ctx))
				break
			}
		}
	}
	var kept []int
	for _, q := range order {
		if _, still := now[q]; still {
			kept = append(kept, q)
		}
	}
	_, kNow := now[k]
	switch {
	case (op == "set" || op == "get") && kNow:
		kept = append([]int{k}, kept...)
	case kNow:
		// Peek / Exist: k keeps its place
		kept = nil
		for _, q := range r.recency[sh] {
			if _, still := now[q]; still {
				kept = append(kept, q)
			}
		}
	}
	r.recency[sh] = kept
	switch op {
	case "set":
		sz := args[2]
		if r.tiny {
			sz = 1
		}
		if lost > 0 && beforeOthers+sz <= r.shardCap {
			r.hit(key("needless-eviction"), ctx)
		}
		if it, ok := now[k]; sz <= r.shardCap && (!ok || it.v != int(args[1])) {
			r.hit(key("set-lost"), ctx)
		}
		if _, ok := now[k]; sz > r.shardCap && ok {
			r.hit(key("oversize-item-kept"), ctx)
		}
	case "del":
		if _, ok := now[k]; ok || lost > 0 {
			r.hit(key("wrong-content"), ctx)
		}
	default:
		if lost > 0 || (present != (now[k] != item{})) {
			r.hit(key("wrong-content"), ctx)
		}
	}
}

// Run executes one script on the real implementation.
// ---------------------------------------------------------------- API probe (child process, watchdog)
//
// A forgotten Lock() (the deferred Unlock then hits an unlocked mutex: FATAL, no recover) or a forgotten Unlock() (the next
// call never returns) would kill or hang this runner at its first script. So before the first script of a process every
// public method of both caches and of the wide caches is called twice on valid input in a CHILD process that announces
// each call; if the child dies or stops announcing for 30 s, the call it announced last is reported as a monitor hit and
// no script of this process touches the caches any more (the harness itself neither dies nor hangs).

var probeOnce sync.Once
var probeKey, probeWhat string

func probeChild() {
	say := func(s string) { fmt.Println("call " + s) }
	for _, kind := range []string{"cache.LRUCache", "tiny.LRUCache"} {
		for round := 0; round < 2; round++ {
			var a lruAPI
			if kind == "tiny.LRUCache" {
				a = tinyAd{tiny.NewLRUCache(3)}
			} else {
				a = sizedAd{cache.NewLRUCache(3)}
			}
			for rep := 0; rep < 2; rep++ {
				say(kind + " Set")
				a.Set(1, 1, 1)
				say(kind + " SetIfAbsent")
				a.SetIfAbsent(2, 2, 1)
				say(kind + " SetAndGetRemoved")
				a.SetAndGetRemoved(3, 3, 1)
				say(kind + " Get")
				a.Get(1)
				say(kind + " Peek")
				a.Peek(2)
				say(kind + " Exist")
				a.Exist(3)
				say(kind + " Keys")
				a.Keys()
				say(kind + " Items")
				a.Items()
				say(kind + " Stats")
				a.Stats()
				for _, m := range []string{"Length", "Size", "Capacity", "Evictions"} {
					say(kind + " " + m)
					switch x := a.(type) {
					case sizedAd:
						map[string]func() int64{"Length": x.c.Length, "Size": x.c.Size, "Capacity": x.c.Capacity, "Evictions": x.c.Evictions}[m]()
					case tinyAd:
						map[string]func() int64{"Length": x.c.Length, "Size": x.c.Size, "Capacity": x.c.Capacity, "Evictions": x.c.Evictions}[m]()
					}
				}
				say(kind + " StatsJSON")
				switch x := a.(type) {
				case sizedAd:
					_ = x.c.StatsJSON()
				case tinyAd:
					_ = x.c.StatsJSON()
				}
				say(kind + " SetCapacity")
				a.SetCapacity(2)
				say(kind + " Delete")
				a.Delete(1)
				say(kind + " Clear")
				a.Clear()
			}
		}
	}
	for _, kind := range []string{"cache.WideLRUCache", "tiny.WideLRUCache"} {
		var w wideAPI
		if kind == "tiny.WideLRUCache" {
			w = wideTiny{tiny.NeWideLRU(10, remap.WithPrime(3)), false}
		} else {
			w = wideSized{cache.NeWideLRUCache(10, remap.WithPrime(3)), false}
		}
		for rep := 0; rep < 2; rep++ {
			say(kind + " Set")
			w.Set(1, 1, 1)
			say(kind + " Get")
			w.Get(1)
			say(kind + " Peek")
			w.Peek(1)
			say(kind + " Exist")
			w.Exist(1)
			say(kind + " Delete")
			w.Delete(1)
		}
	}
	fmt.Println("done")
}

func runProbe() {
	exe, err := os.Executable()
	if err != nil {
		return
	}
	cmd := exec.Command(exe, "probechild")
	var errb bytes.Buffer
	cmd.Stderr = &errb
	pipe, err := cmd.StdoutPipe()
	if err != nil || cmd.Start() != nil {
		return
	}
	lines := make(chan string, 1024)
	go func() {
		sc := bufio.NewScanner(pipe)
		for sc.Scan() {
			lines <- sc.Text()
		}
		close(lines)
	}()
	last, finished := "(nothing yet)", false
loop:
	for {
		select {
		case l, ok := <-lines:
			if !ok {
				break loop
			}
			if l == "done" {
				finished = true
			} else {
				last = strings.TrimPrefix(l, "call ")
			}
		case <-time.After(30 * time.Second):
			_ = cmd.Process.Kill()
			f := strings.Fields(last)
			if len(f) == 2 {
				probeKey = "C04:" + f[0] + ":" + f[1] + ":never-returns"
			} else {
				probeKey = "C04:api:never-returns"
			}
			probeWhat = "a plain call sequence on a fresh cache of capacity 3 stopped at `" + last + "`: the call did not return within 30 s (a lock that is never released?)"
			return
		}
	}
	werr := cmd.Wait()
	if finished && werr == nil {
		return
	}
	tail := errb.String()
	if i := strings.Index(tail, "goroutine "); i > 0 {
		tail = tail[:i]
	}
	f := strings.Fields(last)
	if len(f) == 2 {
		probeKey = "C04:" + f[0] + ":" + f[1] + ":kills-the-process"
	} else {
		probeKey = "C04:api:kills-the-process"
	}
	probeWhat = "a plain call sequence on a fresh cache of capacity 3 died in `" + last + "`: " + strings.TrimSpace(strings.ReplaceAll(tail, "\n", " | "))
}

func runCase(c corr.Case) corr.Result {
	probeOnce.Do(runProbe)
	if probeKey != "" {
		var res corr.Result
		for range c.Lines {
			res.Outs = append(res.Outs, "skipped: the cache API is unusable in this build")
		}
		res.Hits = []corr.Hit{{Key: probeKey, What: probeWhat}}
		return res
	}
	r := &runner{seenHit: map[string]bool{}}
	var res corr.Result
	for _, l := range c.Lines {
		out := ""
		if guard(func() { out = r.line(l) }) {
			out = "panic"
		}
		res.Outs = append(res.Outs, out)
	}
	res.Hits = r.hits
	return res
}

var _ = sort.Ints
var _ = remap.NewReMap
