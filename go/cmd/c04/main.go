// Command c04: extractor and correspondence runner for property C04 (LRU caches).
package main

import (
	"fmt"
	"go/ast"
	"os"
	"path/filepath"
	"strings"

	"nvharness/lib/c17syn"
	"nvharness/lib/corr"
	"nvharness/lib/gofacts"
	_ "nvharness/lib/quiet"
)

func main() {
	if len(os.Args) < 2 {
		fmt.Fprintln(os.Stderr, "usage: c04 extract|corr …")
		os.Exit(2)
	}
	switch os.Args[1] {
	case "extract":
		extract(os.Args[2], os.Args[3])
	case "corr":
		corr.Main(spec(), os.Args[2:])
	default:
		os.Exit(2)
	}
}

// ---------------------------------------------------------------- extract

type pkgFacts struct {
	evict, getMoves, peekMoves, siaMoves, updChecks string // Lean literals
	facts                                           [10]bool
	notes                                           []string
}

var publicLocked = []string{"Get", "Peek", "Exist", "Set", "SetAndGetRemoved", "SetIfAbsent", "Delete", "Clear",
	"SetCapacity", "Stats", "Length", "Size", "Capacity", "Evictions", "Keys", "Items"}

func extractPkg(repo, dir string, tiny bool) pkgFacts {
	f := gofacts.MustLoad(repo, dir+"/lru.go")
	var pf pkgFacts
	note := func(ok bool, what string) bool {
		if !ok {
			pf.notes = append(pf.notes, dir+":"+what)
		}
		return ok
	}
	// --- Cfg
	guard := func(body string) string {
		switch {
		case strings.HasPrefix(body, "{ for lru.size > lru.capacity {"):
			return "gt"
		case strings.HasPrefix(body, "{ for lru.size >= lru.capacity {"):
			return "ge"
		}
		return "unknown"
	}
	g1, g2 := guard(f.Body("LRUCache", "checkCapacity")), guard(f.Body("LRUCache", "checkCapacityAndGetRemoved"))
	pf.evict = g1
	if g1 != g2 {
		pf.evict = "unknown"
	}
	const lookup = "element := lru.table[key] if element == nil { return nil, false } "
	get, peek := f.Body("LRUCache", "Get"), f.Body("LRUCache", "Peek")
	getShape := gofacts.Has(get, lookup) && gofacts.Has(get, "return element.Value.(*entry).value, true }")
	peekShape := gofacts.Has(peek, lookup) && gofacts.Has(peek, "return element.Value.(*entry).value, true }")
	pf.getMoves = gofacts.LeanBool(gofacts.Has(get, lookup+"lru.list.MoveToFront(element) return"))
	pf.peekMoves = gofacts.LeanBool(gofacts.Has(peek, "MoveToFront") || gofacts.Has(peek, "PushFront") || gofacts.Has(peek, "MoveBefore"))
	sia := f.Body("LRUCache", "SetIfAbsent")
	siaShape := gofacts.Has(sia, "if element := lru.table[key]; element != nil {") && gofacts.Has(sia, "} else { lru.addNew(key, value) } }")
	pf.siaMoves = gofacts.LeanBool(gofacts.Has(sia, "element != nil { lru.list.MoveToFront(element) } else {"))
	upd := f.Body("LRUCache", "updateInPlace")
	pf.updChecks = gofacts.LeanBool(strings.HasSuffix(upd, "lru.list.MoveToFront(element) lru.checkCapacity() }"))

	// --- Facts
	// 0 every exported method (but Init, StatsJSON) locks first and defers the unlock
	locked := true
	for _, d := range f.AST.Decls {
		fd, ok := d.(*ast.FuncDecl)
		if !ok || fd.Recv == nil || !ast.IsExported(fd.Name.Name) || fd.Name.Name == "Init" || fd.Name.Name == "StatsJSON" {
			continue
		}
		body := f.Src(fd.Body)
		if !strings.HasPrefix(body, "{ lru.mu.Lock() defer lru.mu.Unlock() ") {
			locked = false
			pf.notes = append(pf.notes, dir+":not-locked:"+fd.Name.Name)
		}
	}
	for _, m := range publicLocked {
		if f.Func("LRUCache", m) == nil {
			locked = false
			pf.notes = append(pf.notes, dir+":missing:"+m)
		}
	}
	statsJSON := f.Body("LRUCache", "StatsJSON")
	locked = locked && gofacts.Has(statsJSON, "l, s, c, e := lru.Stats()")
	pf.facts[0] = locked
	// 1 updateInPlace (modulo the optional trailing checkCapacity, which is the Cfg)
	updCore := strings.TrimSuffix(strings.TrimSuffix(upd, " }"), " lru.checkCapacity()")
	if tiny {
		pf.facts[1] = note(updCore == "{ element.Value.(*entry).value = value lru.list.MoveToFront(element)", "updateInPlace")
	} else {
		pf.facts[1] = note(updCore == "{ valueSize := int64(value.Size()) sizeDiff := valueSize - element.Value.(*entry).size element.Value.(*entry).value = value element.Value.(*entry).size = valueSize lru.size += sizeDiff lru.list.MoveToFront(element)", "updateInPlace")
	}
	set := f.Body("LRUCache", "Set")
	pf.facts[1] = pf.facts[1] && note(gofacts.Has(set, "if element := lru.table[key]; element != nil { lru.updateInPlace(element, value) } else { lru.addNew(key, value) } }"), "Set")
	// 2 addNew
	add := f.Body("LRUCache", "addNew")
	if tiny {
		pf.facts[2] = note(add == "{ newEntry := &entry{key, value} element := lru.list.PushFront(newEntry) lru.table[key] = element lru.size++ lru.checkCapacity() }", "addNew")
	} else {
		pf.facts[2] = note(add == "{ newEntry := &entry{key, value, int64(value.Size())} element := lru.list.PushFront(newEntry) lru.table[key] = element lru.size += newEntry.size lru.checkCapacity() }", "addNew")
	}
	// 3 …AndGetRemoved helpers = plain helpers + collecting the removed values
	addR := f.Body("LRUCache", "addNewAndGetRemoved")
	sgr := f.Body("LRUCache", "SetAndGetRemoved")
	if tiny {
		pf.facts[3] = note(addR == "{ newEntry := &entry{key, value} element := lru.list.PushFront(newEntry) lru.table[key] = element lru.size++ return lru.checkCapacityAndGetRemoved() }", "addNewAndGetRemoved") &&
			note(gofacts.Has(sgr, "if element := lru.table[key]; element != nil { lru.updateInPlace(element, value) return nil } else { return lru.addNewAndGetRemoved(key, value) } }"), "SetAndGetRemoved")
	} else {
		updR := f.Body("LRUCache", "updateInPlaceAndGetRemoved")
		wantUpdR := strings.TrimSuffix(strings.TrimSuffix(upd, " }"), " lru.checkCapacity()") + " return lru.checkCapacityAndGetRemoved() }"
		pf.facts[3] = note(addR == "{ newEntry := &entry{key, value, int64(value.Size())} element := lru.list.PushFront(newEntry) lru.table[key] = element lru.size += newEntry.size return lru.checkCapacityAndGetRemoved() }", "addNewAndGetRemoved") &&
			note(updR == wantUpdR && pf.updChecks == "true", "updateInPlaceAndGetRemoved") &&
			note(gofacts.Has(sgr, "if element := lru.table[key]; element != nil { return lru.updateInPlaceAndGetRemoved(element, value) } else { return lru.addNewAndGetRemoved(key, value) } }"), "SetAndGetRemoved")
	}
	// 4 eviction body
	dec := "lru.size -= delValue.size"
	if tiny {
		dec = "lru.size--"
	}
	cc, ccr := f.Body("LRUCache", "checkCapacity"), f.Body("LRUCache", "checkCapacityAndGetRemoved")
	evBody := "{ delElem := lru.list.Back() delValue := delElem.Value.(*entry) lru.list.Remove(delElem) delete(lru.table, delValue.key) " + dec + " lru.evictions++ "
	pf.facts[4] = note(strings.HasSuffix(cc, "lru.capacity "+evBody+"} }"), "checkCapacity") &&
		note(strings.HasSuffix(ccr, "lru.capacity "+evBody+"removedValueList = append(removedValueList, delValue.value) } return }"), "checkCapacityAndGetRemoved")
	// 5 Delete
	del := f.Body("LRUCache", "Delete")
	ddec := "lru.size -= element.Value.(*entry).size"
	if tiny {
		ddec = "lru.size--"
	}
	pf.facts[5] = note(gofacts.Has(del, "element := lru.table[key] if element == nil { return false } lru.list.Remove(element) delete(lru.table, key) "+ddec+" return true }"), "Delete")
	// 6 Clear
	pf.facts[6] = note(gofacts.Has(f.Body("LRUCache", "Clear"), "lru.list.Init() lru.table = make(map[interface{}]*list.Element) lru.size = 0 }"), "Clear")
	// 7 SetCapacity, Init
	pf.facts[7] = note(gofacts.Has(f.Body("LRUCache", "SetCapacity"), "lru.capacity = capacity lru.checkCapacity() }"), "SetCapacity") &&
		note(f.Body("LRUCache", "Init") == "{ lru.list = list.New() lru.table = make(map[interface{}]*list.Element) lru.capacity = capacity }", "Init") &&
		note(gofacts.Has(f.Body("", "NewLRUCache"), "var c = &LRUCache{} c.Init(capacity) return c"), "NewLRUCache")
	// 8 listings, lookups
	keys, items, stats := f.Body("LRUCache", "Keys"), f.Body("LRUCache", "Items"), f.Body("LRUCache", "Stats")
	pf.facts[8] = note(gofacts.Has(keys, "for e := lru.list.Front(); e != nil; e = e.Next() { keys = append(keys, e.Value.(*entry).key) } return keys }"), "Keys") &&
		note(gofacts.Has(items, "for e := lru.list.Front(); e != nil; e = e.Next() { v := e.Value.(*entry) items = append(items, Item{Key: v.key, Value: v.value}) } return items }"), "Items") &&
		note(gofacts.Has(stats, "return int64(lru.list.Len()), lru.size, lru.capacity, lru.evictions }"), "Stats") &&
		note(getShape && peekShape && siaShape, "Get/Peek/SetIfAbsent") &&
		note(gofacts.Has(f.Body("LRUCache", "Exist"), "var _, ok = lru.table[key] return ok }"), "Exist") &&
		note(gofacts.Has(f.Body("LRUCache", "Length"), "return int64(lru.list.Len()) }") && gofacts.Has(f.Body("LRUCache", "Size"), "return lru.size }") &&
			gofacts.Has(f.Body("LRUCache", "Capacity"), "return lru.capacity }") && gofacts.Has(f.Body("LRUCache", "Evictions"), "return lru.evictions }"), "Length/Size/Capacity/Evictions")
	// 9 wide variant
	w := gofacts.MustLoad(repo, dir+"/wlru.go")
	nw := w.Body("", "newWideLRUCache")
	wide := note(gofacts.Has(nw, "w.rehash = remap.NewReMap(opts...) var numbs = w.rehash.Numbs() w.ls = make([]*LRUCache, numbs)") &&
		gofacts.Has(nw, "for i := uint64(0); i < numbs; i++ { w.ls[i] = NewLRUCache(pSize) }") &&
		gofacts.Has(nw, "if useXHash { w.calKeyFn = w.rehash.XHashIndex } else { w.calKeyFn = w.rehash.SimpleIndex } return w }"), "newWideLRUCache")
	wide = wide && note(w.Body("WideLRUCache", "calculateKey") == "{ var i = w.calKeyFn(key) return w.ls[i] }", "calculateKey")
	for m, call := range map[string]string{"Get": "return w.calculateKey(key).Get(key)", "Peek": "return w.calculateKey(key).Peek(key)",
		"Exist": "return w.calculateKey(key).Exist(key)", "Set": "w.calculateKey(key).Set(key, value)", "Delete": "return w.calculateKey(key).Delete(key)"} {
		wide = wide && note(w.Body("WideLRUCache", m) == "{ "+call+" }", "Wide."+m)
	}
	pf.facts[9] = wide
	return pf
}

// pSizeKernel lifts `var pSize = capacity/int64(numbs) + 1` out of newWideLRUCache and translates it.
func pSizeKernel(repo, dir, name string) (string, error) {
	w := gofacts.MustLoad(repo, dir+"/wlru.go")
	fd := w.Func("", "newWideLRUCache")
	if fd == nil || fd.Body == nil {
		return "", fmt.Errorf("%s: newWideLRUCache not found", dir)
	}
	// the statements that compute pSize: everything between `w.ls = make(…)` and the loop that builds the shards
	var stmts []string
	state := 0
	for _, st := range fd.Body.List {
		src := w.Src(st)
		switch {
		case state == 0 && strings.HasPrefix(src, "w.ls = make("):
			state = 1
		case state == 1:
			if _, isFor := st.(*ast.ForStmt); isFor {
				state = 2
			} else {
				stmts = append(stmts, c17syn.Print(w.Fset, st))
			}
		}
	}
	stmt := strings.Join(stmts, "\n")
	if state != 2 || len(stmts) == 0 || !strings.Contains(stmt, "pSize") {
		stmt = ""
	}
	// parameter types are read from the declarations: `capacity` from the signature, `numbs` from remap.(*ReMap).Numbs
	capT := ""
	for _, fl := range fd.Type.Params.List {
		for _, n := range fl.Names {
			if n.Name == "capacity" {
				capT = c17syn.Print(w.Fset, fl.Type)
			}
		}
	}
	rm := gofacts.MustLoad(repo, "remap/remap.go")
	nb := rm.Func("ReMap", "Numbs")
	numbsT := ""
	if nb != nil && nb.Type.Results != nil && len(nb.Type.Results.List) == 1 {
		numbsT = c17syn.Print(rm.Fset, nb.Type.Results.List[0].Type)
	}
	if capT == "" || numbsT == "" || !gofacts.Has(w.Src(fd.Body), "var numbs = w.rehash.Numbs()") {
		return "", fmt.Errorf("%s: cannot type the operands of pSize", dir)
	}
	lean, errs := c17syn.Translate([]string{"math"}, []c17syn.Func{{Name: name, Params: "capacity " + capT + ", numbs " + numbsT, Result: "int64", Body: stmt + "\nreturn pSize"}})
	if e := errs[name]; e != nil {
		return "", e
	}
	return lean, nil
}

func extract(repo, leanDir string) {
	sized := extractPkg(repo, "cache", false)
	tiny := extractPkg(repo, "cache/tiny", true)
	k1, e1 := pSizeKernel(repo, "cache", "pSize")
	k2, e2 := pSizeKernel(repo, "cache/tiny", "pSizeTiny")
	translated := e1 == nil && e2 == nil
	if !translated {
		// keep the oracle compiling; `kernelTranslated = false` breaks the tie
		k1 = "def pSize (capacity : BitVec 64) (numbs : BitVec 64) : BitVec 64 := 0#64\n"
		k2 = "def pSizeTiny (capacity : BitVec 64) (numbs : BitVec 64) : BitVec 64 := 0#64\n"
	}
	cfg := func(p pkgFacts) string {
		return fmt.Sprintf("⟨.%s, %s, %s, %s, %s⟩", p.evict, p.getMoves, p.peekMoves, p.siaMoves, p.updChecks)
	}
	facts := func(p pkgFacts) string {
		var b []string
		for _, x := range p.facts {
			b = append(b, gofacts.LeanBool(x))
		}
		b = append(b, gofacts.LeanBool(translated))
		return "⟨" + strings.Join(b, ", ") + "⟩"
	}
	out := "set_option linter.unusedVariables false\nimport Nv.Model.C04\n" +
		"/-! GENERATED by `c04 extract` from cache/lru.go, cache/wlru.go, cache/tiny/lru.go, cache/tiny/wlru.go, remap/remap.go — do not edit. -/\n" +
		"namespace Nv.Gen.C04\n" +
		"def cfgSized : Nv.C04.Cfg := " + cfg(sized) + "\n" +
		"def cfgTiny : Nv.C04.Cfg := " + cfg(tiny) + "\n" +
		"def factsSized : Nv.C04.Facts := " + facts(sized) + "\n" +
		"def factsTiny : Nv.C04.Facts := " + facts(tiny) + "\n\n" +
		k1 + "\n" + k2 + "\nend Nv.Gen.C04\n"
	// `set_option` must follow the imports
	out = strings.Replace(out, "set_option linter.unusedVariables false\nimport Nv.Model.C04\n", "import Nv.Model.C04\nset_option linter.unusedVariables false\n", 1)
	if err := gofacts.WriteIfChanged(filepath.Join(leanDir, "Nv/Gen/C04.lean"), out); err != nil {
		fmt.Fprintln(os.Stderr, err)
		os.Exit(2)
	}
	notes := append(append([]string{}, sized.notes...), tiny.notes...)
	if e1 != nil {
		notes = append(notes, "kernel:"+e1.Error())
	}
	if e2 != nil {
		notes = append(notes, "kernel:"+e2.Error())
	}
	fmt.Printf("extract C04: cfgSized=%s cfgTiny=%s factsSized=%v factsTiny=%v kernels=%v unclassified=%v\n", cfg(sized), cfg(tiny), sized.facts, tiny.facts, translated, notes)
}
