// Command c04: extractor and correspondence runner for property C04 (LRU caches).
package main

import (
	"fmt"
	"go/ast"
	"os"
	"path/filepath"
	"sort"
	"strings"

	"nvharness/lib/c17syn"
	"nvharness/lib/corr"
	"nvharness/lib/gofacts"
	_ "nvharness/lib/quiet"
)

func main() {
	if len(os.Args) < 2 {
		fmt.Fprintln(os.Stderr, "usage: c04 extract|corr …")
		os.Exit(2)
	}
	switch os.Args[1] {
	case "extract":
		extract(os.Args[2], os.Args[3])
	case "corr":
		corr.Main(spec(), os.Args[2:])
	case "concchild":
		concChild(os.Args[2:])
	case "probechild":
		probeChild()
	default:
		os.Exit(2)
	}
}

// ---------------------------------------------------------------- extract

type pkgFacts struct {
	evict, getMoves, peekMoves, siaMoves, updChecks string // Lean literals
	facts                                           [10]bool
	notes                                           []string
}

// which shape fact(s) a function belongs to (indices into Facts, see Nv/Model/C04.lean)
var factOf = map[string][]int{
	".Get": {0, 8}, ".Peek": {0, 8}, ".Exist": {0, 8}, ".Set": {0, 1}, ".SetAndGetRemoved": {0, 3}, ".SetIfAbsent": {0, 8},
	".Delete": {0, 5}, ".Clear": {0, 6}, ".SetCapacity": {0, 7}, ".Stats": {0, 8}, ".StatsJSON": {0, 8}, ".Length": {0, 8},
	".Size": {0, 8}, ".Capacity": {0, 8}, ".Evictions": {0, 8}, ".Keys": {0, 8}, ".Items": {0, 8}, ".Init": {7},
	"NewLRUCache": {7}, "NewSingleLRUCache": {7}, ".updateInPlace": {1}, ".updateInPlaceAndGetRemoved": {3}, ".addNew": {2},
	".addNewAndGetRemoved": {3}, ".checkCapacity": {4}, ".checkCapacityAndGetRemoved": {4},
}

const (
	guardGT   = "for v1 . size > v1 . capacity {"
	guardGE   = "for v1 . size >= v1 . capacity {"
	moveV5    = "v1 . list . MoveToFront ( v5 ) ; "
	siaMove   = "{ v1 . list . MoveToFront ( v4 ) ; } else"
	siaNoMove = "{ } else"
	checkCall = "v1 . checkCapacity ( ) ; "
	pSat      = "v6 := v1 / int64 ( v5 ) ; if v6 < math . MaxInt64 { v6 ++ ; } ;"
	pPlus     = "v6 := v1 / int64 ( v5 ) + 1 ;"
)

func canonFuncs(f *gofacts.File) map[string]string {
	m := map[string]string{}
	for _, d := range f.AST.Decls {
		if fd, ok := d.(*ast.FuncDecl); ok {
			name := fd.Name.Name
			if fd.Recv != nil {
				name = "." + name
			}
			m[name] = f.Canon(fd)
		}
	}
	return m
}

// extractPkg compares the WHOLE canonical declaration of every function of <dir>/lru.go and <dir>/wlru.go with the shape
// the model was written against (shapes.go) or one of the known variants that select a Cfg value. Any other text —
// an inserted prologue, a reordered statement, an extra or missing function — is unclassified: the fact it belongs to
// becomes false (and a Cfg field `unknown` / outside `Proved`), which breaks the tie.
func extractPkg(repo, dir string, tiny bool) pkgFacts {
	var pf pkgFacts
	for i := range pf.facts {
		pf.facts[i] = true
	}
	bad := func(name string, why string) {
		pf.notes = append(pf.notes, dir+":"+strings.TrimPrefix(name, ".")+":"+why)
		idx, ok := factOf[name]
		if !ok {
			idx = []int{0}
		}
		for _, i := range idx {
			pf.facts[i] = false
		}
	}
	want := shapes[dir+"/lru.go"]
	got := canonFuncs(gofacts.MustLoad(repo, dir+"/lru.go"))
	// pick(name, variants…) returns the index of the variant the current text equals (0 = the shape in shapes.go), -1 otherwise
	pick := func(name string, variants ...string) int {
		cur, ok := got[name]
		if !ok {
			bad(name, "missing")
			return -1
		}
		if cur == want[name] {
			return 0
		}
		for i, v := range variants {
			if cur == v && v != want[name] {
				return i + 1
			}
		}
		bad(name, "unclassified body")
		return -1
	}
	for name := range got {
		if _, ok := want[name]; !ok {
			bad(name, "function the model does not know")
		}
	}
	lit := func(b bool) string { return gofacts.LeanBool(b) }
	// Cfg-bearing functions
	g1 := pick(".checkCapacity", strings.Replace(want[".checkCapacity"], guardGT, guardGE, 1))
	g2 := pick(".checkCapacityAndGetRemoved", strings.Replace(want[".checkCapacityAndGetRemoved"], guardGT, guardGE, 1))
	switch {
	case g1 == 0 && g2 == 0:
		pf.evict = "gt"
	case g1 == 1 && g2 == 1:
		pf.evict = "ge"
	default:
		pf.evict = "unknown"
	}
	pf.getMoves = lit(pick(".Get", strings.Replace(want[".Get"], moveV5, "", 1)) == 0)
	pf.peekMoves = lit(pick(".Peek", strings.Replace(want[".Peek"], "return v5 . Value", moveV5+"return v5 . Value", 1)) != 0)
	pf.siaMoves = lit(pick(".SetIfAbsent", strings.Replace(want[".SetIfAbsent"], siaMove, siaNoMove, 1)) == 0)
	if tiny {
		// tiny: no re-check after an update today; a trailing checkCapacity is a known (harmless) variant
		u := pick(".updateInPlace", strings.TrimSuffix(want[".updateInPlace"], "} ;")+checkCall+"} ;")
		pf.updChecks = lit(u == 1)
	} else {
		u := pick(".updateInPlace", strings.Replace(want[".updateInPlace"], checkCall, "", 1))
		pf.updChecks = lit(u == 0)
		if pick(".updateInPlaceAndGetRemoved") != 0 || u != 0 {
			// Set and SetAndGetRemoved must agree on whether an update re-checks (one Cfg bit for both)
			if u == 1 {
				bad(".updateInPlaceAndGetRemoved", "differs from updateInPlace")
			}
		}
	}
	// everything else: exactly the known shape
	for name := range want {
		switch name {
		case ".checkCapacity", ".checkCapacityAndGetRemoved", ".Get", ".Peek", ".SetIfAbsent", ".updateInPlace", ".updateInPlaceAndGetRemoved":
		default:
			pick(name)
		}
	}
	// wide variant (fact 9): every function of wlru.go, the constructor in either per-shard-capacity form
	wwant := shapes[dir+"/wlru.go"]
	wgot := canonFuncs(gofacts.MustLoad(repo, dir+"/wlru.go"))
	for name, w := range wwant {
		cur, ok := wgot[name]
		okShape := ok && cur == w
		if name == "newWideLRUCache" && ok && !okShape {
			okShape = cur == strings.Replace(w, pSat, pPlus, 1)
		}
		if !okShape {
			pf.facts[9] = false
			pf.notes = append(pf.notes, dir+":wlru.go:"+strings.TrimPrefix(name, ".")+":unclassified body")
		}
	}
	for name := range wgot {
		if _, ok := wwant[name]; !ok {
			pf.facts[9] = false
			pf.notes = append(pf.notes, dir+":wlru.go:"+strings.TrimPrefix(name, ".")+":function the model does not know")
		}
	}
	sort.Strings(pf.notes)
	return pf
}

// pSizeKernel lifts `var pSize = capacity/int64(numbs) + 1` out of newWideLRUCache and translates it.
func pSizeKernel(repo, dir, name string) (string, error) {
	w := gofacts.MustLoad(repo, dir+"/wlru.go")
	fd := w.Func("", "newWideLRUCache")
	if fd == nil || fd.Body == nil {
		return "", fmt.Errorf("%s: newWideLRUCache not found", dir)
	}
	// the statements that compute pSize: everything between `w.ls = make(…)` and the loop that builds the shards
	var stmts []string
	state := 0
	for _, st := range fd.Body.List {
		src := w.Src(st)
		switch {
		case state == 0 && strings.HasPrefix(src, "w.ls = make("):
			state = 1
		case state == 1:
			if _, isFor := st.(*ast.ForStmt); isFor {
				state = 2
			} else {
				stmts = append(stmts, c17syn.Print(w.Fset, st))
			}
		}
	}
	stmt := strings.Join(stmts, "\n")
	if state != 2 || len(stmts) == 0 || !strings.Contains(stmt, "pSize") {
		stmt = ""
	}
	// parameter types are read from the declarations: `capacity` from the signature, `numbs` from remap.(*ReMap).Numbs
	capT := ""
	for _, fl := range fd.Type.Params.List {
		for _, n := range fl.Names {
			if n.Name == "capacity" {
				capT = c17syn.Print(w.Fset, fl.Type)
			}
		}
	}
	rm := gofacts.MustLoad(repo, "remap/remap.go")
	nb := rm.Func("ReMap", "Numbs")
	numbsT := ""
	if nb != nil && nb.Type.Results != nil && len(nb.Type.Results.List) == 1 {
		numbsT = c17syn.Print(rm.Fset, nb.Type.Results.List[0].Type)
	}
	if capT == "" || numbsT == "" || !gofacts.Has(w.Src(fd.Body), "var numbs = w.rehash.Numbs()") {
		return "", fmt.Errorf("%s: cannot type the operands of pSize", dir)
	}
	lean, errs := c17syn.Translate([]string{"math"}, []c17syn.Func{{Name: name, Params: "capacity " + capT + ", numbs " + numbsT, Result: "int64", Body: stmt + "\nreturn pSize"}})
	if e := errs[name]; e != nil {
		return "", e
	}
	return lean, nil
}

func extract(repo, leanDir string) {
	sized := extractPkg(repo, "cache", false)
	tiny := extractPkg(repo, "cache/tiny", true)
	k1, e1 := pSizeKernel(repo, "cache", "pSize")
	k2, e2 := pSizeKernel(repo, "cache/tiny", "pSizeTiny")
	translated := e1 == nil && e2 == nil
	if !translated {
		// keep the oracle compiling; `kernelTranslated = false` breaks the tie
		k1 = "def pSize (capacity : BitVec 64) (numbs : BitVec 64) : BitVec 64 := 0#64\n"
		k2 = "def pSizeTiny (capacity : BitVec 64) (numbs : BitVec 64) : BitVec 64 := 0#64\n"
	}
	cfg := func(p pkgFacts) string {
		return fmt.Sprintf("⟨.%s, %s, %s, %s, %s⟩", p.evict, p.getMoves, p.peekMoves, p.siaMoves, p.updChecks)
	}
	facts := func(p pkgFacts) string {
		var b []string
		for _, x := range p.facts {
			b = append(b, gofacts.LeanBool(x))
		}
		b = append(b, gofacts.LeanBool(translated))
		return "⟨" + strings.Join(b, ", ") + "⟩"
	}
	out := "set_option linter.unusedVariables false\nimport Nv.Model.C04\n" +
		"/-! GENERATED by `c04 extract` from cache/lru.go, cache/wlru.go, cache/tiny/lru.go, cache/tiny/wlru.go, remap/remap.go — do not edit. -/\n" +
		"namespace Nv.Gen.C04\n" +
		"def cfgSized : Nv.C04.Cfg := " + cfg(sized) + "\n" +
		"def cfgTiny : Nv.C04.Cfg := " + cfg(tiny) + "\n" +
		"def factsSized : Nv.C04.Facts := " + facts(sized) + "\n" +
		"def factsTiny : Nv.C04.Facts := " + facts(tiny) + "\n\n" +
		k1 + "\n" + k2 + "\nend Nv.Gen.C04\n"
	// `set_option` must follow the imports
	out = strings.Replace(out, "set_option linter.unusedVariables false\nimport Nv.Model.C04\n", "import Nv.Model.C04\nset_option linter.unusedVariables false\n", 1)
	if err := gofacts.WriteIfChanged(filepath.Join(leanDir, "Nv/Gen/C04.lean"), out); err != nil {
		fmt.Fprintln(os.Stderr, err)
		os.Exit(2)
	}
	notes := append(append([]string{}, sized.notes...), tiny.notes...)
	if e1 != nil {
		notes = append(notes, "kernel:"+e1.Error())
	}
	if e2 != nil {
		notes = append(notes, "kernel:"+e2.Error())
	}
	fmt.Printf("extract C04: cfgSized=%s cfgTiny=%s factsSized=%v factsTiny=%v kernels=%v unclassified=%v\n", cfg(sized), cfg(tiny), sized.facts, tiny.facts, translated, notes)
}
