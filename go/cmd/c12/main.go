// Command c12: extractor and correspondence runner for property C12 (queues: order, capacity, close semantics).
package main

import (
	"context"
	"fmt"
	"os"
	"path/filepath"
	"runtime"
	"strconv"
	"strings"
	"time"

	"github.com/pinealctx/neptune/queue/priq"
	"github.com/pinealctx/neptune/queue/syncq"
	"github.com/pinealctx/neptune/syncx/pipe/async"
	"github.com/pinealctx/neptune/syncx/pipe/mq"
	"github.com/pinealctx/neptune/syncx/pipe/mux"
	pq "github.com/pinealctx/neptune/syncx/pipe/q"

	"nvharness/lib/c12facts"
	"nvharness/lib/c12sched"
	"nvharness/lib/c12stress"
	"nvharness/lib/c12worker"
	"nvharness/lib/c13run"
	"nvharness/lib/corr"
	"nvharness/lib/gofacts"
	_ "nvharness/lib/quiet"
	"nvharness/lib/rng"
	"nvharness/lib/sched"
)

func main() {
	if len(os.Args) < 2 {
		fmt.Fprintln(os.Stderr, "usage: c12 extract|corr …")
		os.Exit(2)
	}
	switch os.Args[1] {
	case "extract":
		extract(os.Args[2], os.Args[3])
	case "corr":
		corr.Main(spec(), os.Args[2:])
	case "stressrun":
		c12stress.ChildMain(os.Args[2:])
	case "runworker":
		c12worker.Serve(runCase)
	default:
		os.Exit(2)
	}
}

// ---------------------------------------------------------------- extract

func extract(repo, leanDir string) {
	text, summary := c12facts.GenC12(repo)
	if err := gofacts.WriteIfChanged(filepath.Join(leanDir, "Nv/Gen/C12.lean"), text); err != nil {
		fmt.Fprintln(os.Stderr, err)
		os.Exit(2)
	}
	// oracle_c12 also imports Nv.Gen.C13 (shared queue model): regenerate it too, so a C12-only run never reads a
	// configuration left behind by a C13 run on another state of the tree
	text13, _ := c12facts.GenC13(repo)
	if err := gofacts.WriteIfChanged(filepath.Join(leanDir, "Nv/Gen/C13.lean"), text13); err != nil {
		fmt.Fprintln(os.Stderr, err)
		os.Exit(2)
	}
	fmt.Println(summary)
}

// ---------------------------------------------------------------- the real queues behind one interface

const sentinel = -777

// listQ adapts the four pipe queues and SyncQueue; ok=false means the kind has no such method (→ bad-op).
type listQ interface {
	add(x int) string
	prior(x int) (string, bool)
	addc(x int) (string, bool)
	priorc(x int) (string, bool)
	addany(x int) (string, bool)  // the *Anyway add on the request list (retry pause 2 ms); false: no such method
	addcany(x int) (string, bool) // … on the control list
	pop() string                  // may block
	popany() (string, bool)
	release() // hand a sentinel to one parked consumer
	close()
}

func errName(err error, closed, full, ctrlFull error) string {
	switch {
	case err == nil:
		return "ok"
	case err == closed:
		return "closed"
	case err == full:
		return "full"
	case ctrlFull != nil && err == ctrlFull:
		return "ctrl-full"
	}
	return "err:" + err.Error()
}

func valName(v interface{}, err error, closed error) string {
	if err != nil {
		if err == closed {
			return "closed"
		}
		return "err:" + err.Error()
	}
	if v == nil {
		return "v:nil"
	}
	if i, ok := v.(int); ok {
		return "v:" + strconv.Itoa(i)
	}
	return fmt.Sprintf("v?%v", v)
}

type qQ struct{ q *pq.Q }

func (a qQ) add(x int) string { return errName(a.q.AddReq(item(x)), pq.ErrClosed, pq.ErrReqQFull, nil) }
func (a qQ) prior(x int) (string, bool) {
	return errName(a.q.AddPriorReq(item(x)), pq.ErrClosed, pq.ErrReqQFull, nil), true
}
func (a qQ) addc(int) (string, bool)   { return "", false }
func (a qQ) priorc(int) (string, bool) { return "", false }
func (a qQ) addany(x int) (string, bool) {
	return errName(a.q.AddReqAnyway(item(x), 2*time.Millisecond), pq.ErrClosed, pq.ErrReqQFull, nil), true
}
func (a qQ) addcany(x int) (string, bool) { return "", false }
func (a qQ) pop() string                  { v, e := a.q.Pop(); return valName(v, e, pq.ErrClosed) }
func (a qQ) popany() (string, bool) {
	v, e := a.q.PopAnyway()
	return valName(v, e, pq.ErrClosed), true
}
func (a qQ) release() { _ = a.q.AddPriorReq(sentinel) }
func (a qQ) close()   { a.q.Close() }

type asyncQ struct{ q *async.Q }

func (a asyncQ) add(x int) string {
	return errName(a.q.Add(item(x)), async.ErrClosed, async.ErrFull, nil)
}
func (a asyncQ) prior(x int) (string, bool) {
	return errName(a.q.AddPrior(item(x)), async.ErrClosed, async.ErrFull, nil), true
}
func (a asyncQ) addc(int) (string, bool)   { return "", false }
func (a asyncQ) priorc(int) (string, bool) { return "", false }
func (a asyncQ) addany(x int) (string, bool) {
	return errName(a.q.AddAnyway(item(x), 2*time.Millisecond), async.ErrClosed, async.ErrFull, nil), true
}
func (a asyncQ) addcany(x int) (string, bool) { return "", false }
func (a asyncQ) pop() string                  { v, e := a.q.Pop(); return valName(v, e, async.ErrClosed) }
func (a asyncQ) popany() (string, bool) {
	v, e := a.q.PopAnyway()
	return valName(v, e, async.ErrClosed), true
}
func (a asyncQ) release() { _ = a.q.AddPrior(sentinel) }
func (a asyncQ) close()   { a.q.Close() }

type muxQ struct{ q *mux.Q }

func (a muxQ) add(x int) string {
	return errName(a.q.AddReq(item(x)), mux.ErrClosed, mux.ErrQFull, nil)
}
func (a muxQ) prior(x int) (string, bool) {
	return errName(a.q.AddPriorReq(item(x)), mux.ErrClosed, mux.ErrQFull, nil), true
}
func (a muxQ) addc(int) (string, bool)   { return "", false }
func (a muxQ) priorc(int) (string, bool) { return "", false }
func (a muxQ) addany(x int) (string, bool) {
	return errName(a.q.AddReqAnyway(item(x), 2*time.Millisecond), mux.ErrClosed, mux.ErrQFull, nil), true
}
func (a muxQ) addcany(x int) (string, bool) { return "", false }
func (a muxQ) pop() string                  { v, e := a.q.Pop(); return valName(v, e, mux.ErrClosed) }
func (a muxQ) popany() (string, bool) {
	v, e := a.q.PopAnyway()
	return valName(v, e, mux.ErrClosed), true
}
func (a muxQ) release() { _ = a.q.AddPriorReq(sentinel) }
func (a muxQ) close()   { a.q.Close() }

type mqQ struct{ q *mq.MQ }

func (a mqQ) add(x int) string {
	return errName(a.q.AddReq(item(x)), mq.ErrClosed, mq.ErrReqQFull, mq.ErrCtrlQFull)
}
func (a mqQ) prior(x int) (string, bool) {
	return errName(a.q.AddPriorReq(item(x)), mq.ErrClosed, mq.ErrReqQFull, mq.ErrCtrlQFull), true
}
func (a mqQ) addc(x int) (string, bool) {
	return errName(a.q.AddCtrl(item(x)), mq.ErrClosed, mq.ErrReqQFull, mq.ErrCtrlQFull), true
}
func (a mqQ) priorc(x int) (string, bool) {
	return errName(a.q.AddPriorCtrl(item(x)), mq.ErrClosed, mq.ErrReqQFull, mq.ErrCtrlQFull), true
}
func (a mqQ) addany(x int) (string, bool) {
	return errName(a.q.AddReqAnyway(item(x), 2*time.Millisecond), mq.ErrClosed, mq.ErrReqQFull, mq.ErrCtrlQFull), true
}
func (a mqQ) addcany(x int) (string, bool) {
	return errName(a.q.AddCtrlAnyway(item(x), 2*time.Millisecond), mq.ErrClosed, mq.ErrReqQFull, mq.ErrCtrlQFull), true
}
func (a mqQ) pop() string { v, e := a.q.Pop(); return valName(v, e, mq.ErrClosed) }
func (a mqQ) popany() (string, bool) {
	v, e := a.q.PopAnyway()
	return valName(v, e, mq.ErrClosed), true
}
func (a mqQ) release() { _ = a.q.AddPriorCtrl(sentinel) }
func (a mqQ) close()   { a.q.Close() }

type syncQ struct{ q *syncq.SyncQueue }

func (a syncQ) add(x int) string             { a.q.Push(x); return "ok" }
func (a syncQ) prior(int) (string, bool)     { return "", false }
func (a syncQ) addc(int) (string, bool)      { return "", false }
func (a syncQ) priorc(int) (string, bool)    { return "", false }
func (a syncQ) addany(x int) (string, bool)  { return "", false }
func (a syncQ) addcany(x int) (string, bool) { return "", false }
func (a syncQ) pop() string {
	v := a.q.Pop()
	if v == nil {
		return "nil"
	}
	return valName(v, nil, nil)
}
func (a syncQ) popany() (string, bool) { return "", false }
func (a syncQ) release()               { a.q.Push(sentinel) }
func (a syncQ) close()                 { a.q.Close() }

type entry struct{ item, prio int }

func (e entry) GetPriority() int { return e.prio }

// ---------------------------------------------------------------- running a script, with the monitors

// shadow is the property's reference restated in Go on the results of the real calls (independent of the Lean model).
type shadow struct {
	kind          string
	ctrl, req     []int
	ctrlCap, rCap int
	closed, clear bool
	pents         []pent
	pcap, pseq    int
}
type pent struct{ item, prio, seq int }

type runner struct {
	kind string
	lq   listQ
	pq   *priq.PriQueue
	sh   shadow
	s    *sched.S
	hits []corr.Hit
	seen map[string]bool
	dead string // set when the script can no longer be continued (a consumer is stuck)
}

func (r *runner) hit(site, what, detail string) {
	// one hit per script: after the first one the reference may be out of step with the queue, and what follows would
	// be consequences of the same cause under other names
	if len(r.hits) > 0 {
		return
	}
	key := "C12:" + r.kind + "." + site + ":" + what
	if r.seen[key] {
		return
	}
	r.seen[key] = true
	r.hits = append(r.hits, corr.Hit{Key: key, What: detail})
}

// parseItem: a positive number, or `nil` (value 0 in the reference; a legal interface{} item — not for SyncQueue, whose
// Pop/TryPop cannot tell a nil item from "closed").
func parseItem(s string, noNil bool) (int, bool) {
	if s == "nil" {
		return 0, !noNil
	}
	n, ok := atoiStrict(s, false)
	return n, ok && n > 0
}

// item is what is handed to the queue: the number, or an untyped nil for 0.
func item(x int) interface{} {
	if x == 0 {
		return nil
	}
	return x
}

func atoiStrict(s string, neg bool) (int, bool) {
	// digits only (optional leading '-' when neg); the whole int64 range is accepted (extreme priorities), nothing beyond
	if s == "" || len(s) > 20 {
		return 0, false
	}
	t := s
	if neg && t[0] == '-' {
		t = t[1:]
	}
	if t == "" {
		return 0, false
	}
	for _, c := range t {
		if c < '0' || c > '9' {
			return 0, false
		}
	}
	n, err := strconv.ParseInt(s, 10, 64)
	return int(n), err == nil
}

func posCap(n int) int {
	if n > 0 {
		return n
	}
	return 0
}

func (r *runner) create(f []string) string {
	r.lq, r.pq, r.kind = nil, nil, "none" // an ill-formed `new` leaves no queue
	switch {
	case len(f) == 4 && f[1] == "mq":
		a, ok1 := atoiStrict(f[2], true)
		c, ok2 := atoiStrict(f[3], true)
		if !ok1 || !ok2 {
			return "bad-op"
		}
		r.kind, r.lq, r.pq = "mq", mqQ{mq.NewMQ(mq.WithQCtrlSize(a), mq.WithQReqSize(c))}, nil
		r.sh = shadow{kind: "mq", ctrlCap: posCap(a), rCap: posCap(c)}
	case len(f) == 2 && f[1] == "syncq":
		r.kind, r.lq, r.pq = "syncq", syncQ{syncq.NewSyncQueue()}, nil
		r.sh = shadow{kind: "syncq"}
	case len(f) == 3 && (f[1] == "q" || f[1] == "async" || f[1] == "mux" || f[1] == "priq"):
		a, ok := atoiStrict(f[2], true)
		if !ok {
			return "bad-op"
		}
		r.kind, r.pq, r.lq = f[1], nil, nil
		r.sh = shadow{kind: f[1], rCap: posCap(a), pcap: a}
		switch f[1] {
		case "q":
			r.lq = qQ{pq.NewQ(pq.WithSize(a))}
		case "async":
			r.lq = asyncQ{async.NewQ(a)}
		case "mux":
			r.lq = muxQ{mux.NewQ(a)}
		case "priq":
			r.pq = priq.NewPriQueue(a)
		}
	default:
		return "bad-op"
	}
	r.dead = ""
	return "ok"
}

// blocking runs a call that may park. A parked call is released by handing it a sentinel (the queue was empty, so its
// state is restored exactly); the verdict `would-block` is taken from a quiescent goroutine snapshot, never from time.
func (r *runner) blocking(fn func() string) string {
	t := r.s.Go("pop", fn)
	defer func() {
		if d, res := t.Done(); d && strings.HasPrefix(res, "panic:") {
			r.hit("Pop", "panic", "a pop call panicked: "+res)
			r.dead = "panic" // the mutex may be left locked: abandon this queue
		}
	}()
	for i := 0; i < 200; i++ {
		if d, res := t.Done(); d {
			return res
		}
		runtime.Gosched()
	}
	if err := c12sched.Settle(c12worker.SettleTimeout()); err != nil {
		if strings.Contains(err.Error(), "no quiescent snapshot") {
			r.hit("Pop", "never-quiesces", "a pop call neither returns nor parks: "+strings.SplitN(err.Error(), "\n", 2)[0])
			r.dead = "never-quiesces"
			c12worker.Poisoned = true
			return "never-quiesces"
		}
		r.dead = "harness:" + err.Error()
		return "harness-error"
	}
	if d, res := t.Done(); d {
		return res
	}
	r.lq.release()
	if err := c12sched.Settle(c12worker.SettleTimeout()); err != nil {
		r.dead = "harness:" + err.Error()
		return "harness-error"
	}
	d, res := t.Done()
	if !d {
		r.dead = "stuck"
		r.hit("Pop", "blocked-pop-not-woken-by-add", "a Pop blocked on the empty open queue stayed parked after an item was added")
		return "stuck"
	}
	if res != "v:"+strconv.Itoa(sentinel) {
		return "would-block-then:" + res
	}
	return "would-block"
}

func (r *runner) line(l string) string {
	f := strings.Fields(l)
	if len(f) == 0 {
		return "bad-op"
	}
	if f[0] == "new" {
		return r.create(f)
	}
	if f[0] == "cnew" { // a concurrency script starts with `cnew` as its FIRST line; anywhere else it is an ill-formed `new`
		r.lq, r.pq, r.kind = nil, nil, "none"
		return "bad-op"
	}
	if r.lq == nil && r.pq == nil {
		return "bad-op"
	}
	if r.dead != "" {
		return "aborted:" + r.dead
	}
	if r.pq != nil {
		return r.priLine(f)
	}
	sh := &r.sh
	isMQ, isSync := r.kind == "mq", r.kind == "syncq"
	arg := func() (int, bool) {
		if len(f) != 2 {
			return 0, false
		}
		return parseItem(f[1], isSync)
	}
	empty := len(sh.ctrl)+len(sh.req) == 0
	switch f[0] {
	case "add", "prior", "addc", "priorc":
		x, ok := arg()
		if !ok {
			return "bad-op"
		}
		var res string
		has := true
		switch f[0] {
		case "add":
			res = r.lq.add(x)
		case "prior":
			res, has = r.lq.prior(x)
		case "addc":
			res, has = r.lq.addc(x)
		case "priorc":
			res, has = r.lq.priorc(x)
		}
		if !has {
			return "bad-op"
		}
		isCtrl := f[0] == "addc" || f[0] == "priorc"
		isPrior := f[0] == "prior" || f[0] == "priorc"
		lst, cp := &sh.req, sh.rCap
		if isCtrl {
			lst, cp = &sh.ctrl, sh.ctrlCap
		}
		// monitors: closed refuses (SyncQueue: silently drops), full iff at capacity, prior never refused for capacity
		switch {
		case isSync:
			if res != "ok" {
				r.hit("Push", "result", "SyncQueue.Push reported "+res)
			}
			if !sh.closed {
				*lst = append(*lst, x)
			}
		case sh.closed:
			if res != "closed" {
				r.hit(f[0], "closed-queue-accepts-add", fmt.Sprintf("%s on a closed queue returned %s", f[0], res))
			}
			if res == "ok" {
				*lst = append(*lst, x)
			}
		default:
			wantFull := !isPrior && cp > 0 && len(*lst) >= cp
			gotFull := res == "full" || res == "ctrl-full"
			if isPrior && gotFull {
				r.hit(f[0], "prior-add-refused-for-capacity", fmt.Sprintf("prior add refused (%s) with %d items, capacity %d", res, len(*lst), cp))
			} else if wantFull != gotFull {
				r.hit(f[0], "full-iff-at-capacity", fmt.Sprintf("ordinary add returned %s with %d items, capacity %d (0 = unbounded)", res, len(*lst), cp))
			} else if !gotFull && res != "ok" {
				r.hit(f[0], "result", "open queue below capacity returned "+res)
			}
			if gotFull && ((isCtrl && res != "ctrl-full") || (!isCtrl && res != "full")) {
				r.hit(f[0], "wrong-full-error", res)
			}
			if res == "ok" {
				if isPrior {
					*lst = append([]int{x}, *lst...)
				} else {
					*lst = append(*lst, x)
				}
			}
		}
		return res
	case "addn":
		// `addn n x0`: the adds x0 … x0+n-1
		if len(f) != 3 {
			return "bad-op"
		}
		n, ok1 := atoiStrict(f[1], false)
		x0, ok2 := atoiStrict(f[2], false)
		if !ok1 || !ok2 || n > 100000 || x0 <= 0 {
			return "bad-op"
		}
		k := 0
		for i := 0; i < n; i++ {
			if res := r.line("add " + strconv.Itoa(x0+i)); res == "ok" {
				k++
			}
		}
		return "ok=" + strconv.Itoa(k)
	case "drain":
		// SyncQueue: TryPop until the buffer is empty (each result goes through the order / conservation monitors)
		if len(f) != 1 || !isSync {
			return "bad-op"
		}
		k := 0
		for n := len(sh.req); n > 0; n-- {
			if res := r.line("trypop"); strings.HasPrefix(res, "v:") {
				k++
			}
		}
		return "n:" + strconv.Itoa(k)
	case "addany", "addcany":
		if len(f) != 3 || (f[2] != "p" && f[2] != "c") {
			return "bad-op"
		}
		x, ok := parseItem(f[1], false)
		if !ok || isSync || (f[0] == "addcany" && !isMQ) {
			return "bad-op"
		}
		if neverEnding > 0 {
			return "skipped:an-earlier-retry-loop-never-ended"
		}
		return r.addAnyway(f[0] == "addcany", x, f[2] == "p")
	case "size?":
		if len(f) != 1 {
			return "bad-op"
		}
		q, ok := r.lq.(asyncQ)
		if !ok {
			return "bad-op"
		}
		n := q.q.Size()
		if n != sh.rCap {
			r.hit("Size", "value", fmt.Sprintf("Size()=%d for a queue created with capacity %d", n, sh.rCap))
		}
		return strconv.Itoa(n)
	case "waitclose", "waitclear":
		if len(f) != 1 {
			return "bad-op"
		}
		var call func(context.Context) error
		switch q := r.lq.(type) {
		case muxQ:
			if f[0] == "waitclose" {
				call = q.q.WaitClose
			}
		case mqQ:
			call = q.q.WaitClose
			if f[0] == "waitclear" {
				call = q.q.WaitClear
			}
		}
		if call == nil {
			return "bad-op"
		}
		return r.waitChan(f[0], call)
	case "pop", "popany":
		if len(f) != 1 {
			return "bad-op"
		}
		anyway := f[0] == "popany"
		if anyway && isSync {
			return "bad-op"
		}
		var res string
		if anyway {
			res = r.blocking(func() string { s, _ := r.lq.popany(); return s })
		} else {
			res = r.blocking(r.lq.pop)
		}
		r.checkPop(f[0], res, anyway || isSync, empty, isMQ)
		return res
	case "trypop":
		if len(f) != 1 || !isSync {
			return "bad-op"
		}
		v, ok := r.lq.(syncQ).q.TryPop()
		res := "none"
		if ok && v == nil {
			res = "closed"
		} else if ok {
			res = valName(v, nil, nil)
		}
		if empty && !sh.closed {
			if res != "none" {
				r.hit("TryPop", "empty-open", "TryPop on an empty open queue returned "+res)
			}
		} else {
			r.checkPop("TryPop", res, true, empty, false)
		}
		return res
	case "close":
		if len(f) != 1 {
			return "bad-op"
		}
		r.lq.close()
		sh.closed = true
		return "ok"
	case "tryclose", "tryclear", "cleared?":
		if len(f) != 1 || !isMQ {
			return "bad-op"
		}
		m := r.lq.(mqQ).q
		switch f[0] {
		case "tryclose":
			got := m.TryClose()
			want := sh.closed || empty
			if got != want {
				r.hit("TryClose", "succeeds-iff-empty", fmt.Sprintf("TryClose=%v with %d items, closed before=%v", got, len(sh.ctrl)+len(sh.req), sh.closed))
			}
			if got {
				sh.closed = true
			}
			return strconv.FormatBool(got)
		case "tryclear":
			got := m.TryClear()
			want := sh.clear || (sh.closed && empty)
			if got != want {
				r.hit("TryClear", "succeeds-iff-closed-and-empty", fmt.Sprintf("TryClear=%v with %d items, closed=%v, cleared before=%v", got, len(sh.ctrl)+len(sh.req), sh.closed, sh.clear))
			}
			if got {
				sh.clear = true
			}
			return strconv.FormatBool(got)
		default:
			got := m.IsCleared()
			if got != sh.clear {
				r.hit("IsCleared", "value", fmt.Sprintf("IsCleared=%v expected %v", got, sh.clear))
			}
			return strconv.FormatBool(got)
		}
	case "closed?":
		if len(f) != 1 {
			return "bad-op"
		}
		var got bool
		switch q := r.lq.(type) {
		case asyncQ:
			got = q.q.IsClosed()
		case muxQ:
			got = q.q.IsClosed()
		case mqQ:
			got = q.q.IsClosed()
		default:
			return "bad-op"
		}
		if got != sh.closed {
			r.hit("IsClosed", "value", fmt.Sprintf("IsClosed=%v expected %v", got, sh.closed))
		}
		return strconv.FormatBool(got)
	case "len":
		if len(f) != 1 || !isSync {
			return "bad-op"
		}
		n := r.lq.(syncQ).q.Len()
		if n != len(sh.req) {
			r.hit("Len", "value", fmt.Sprintf("Len=%d with %d accepted and not yet popped items", n, len(sh.req)))
		}
		return strconv.Itoa(n)
	}
	return "bad-op"
}

// waitChan: WaitClose / WaitClear with a cancellable context. Returns at once iff the queue is closed / cleared; a
// blocked call is seen parked by a goroutine snapshot and then released by cancelling its context.
func (r *runner) waitChan(op string, call func(context.Context) error) string {
	sh := &r.sh
	ctx, cancel := context.WithCancel(context.Background())
	defer cancel()
	t := r.s.Go(op, func() string {
		if err := call(ctx); err != nil {
			return "err:" + err.Error()
		}
		return "ok"
	})
	for i := 0; i < 200; i++ {
		if d, _ := t.Done(); d {
			break
		}
		runtime.Gosched()
	}
	if d, _ := t.Done(); !d {
		if err := c12sched.Settle(c12worker.SettleTimeout()); err != nil {
			r.dead = "harness:" + err.Error()
			return "harness-error"
		}
	}
	res := "would-block"
	if d, out := t.Done(); d {
		res = out
	} else {
		cancel()
		if err := c12sched.Settle(c12worker.SettleTimeout()); err != nil {
			r.dead = "harness:" + err.Error()
			return "harness-error"
		}
		if d, out := t.Done(); !d || out != "err:context canceled" {
			r.hit(op, "cancel", fmt.Sprintf("a blocked %s did not return ctx.Err() after cancel: done=%v %s", op, d, out))
		}
	}
	want := sh.closed
	site := "WaitClose"
	if op == "waitclear" {
		want, site = sh.clear, "WaitClear"
	}
	if want && res != "ok" {
		r.hit(site, "blocks-although-signalled", fmt.Sprintf("%s on a %s queue: %s", site, map[bool]string{true: "cleared", false: "closed"}[op == "waitclear"], res))
	}
	if !want && res != "would-block" {
		r.hit(site, "returns-early", fmt.Sprintf("%s returned %s although the queue is not %s", site, res, map[bool]string{true: "cleared", false: "closed"}[op == "waitclear"]))
	}
	return res
}

var neverEnding int // retry loops that did not end within the guard (each leaks a goroutine polling every 2 ms)

// addAnyway drives AddReqAnyway / AddAnyway / AddCtrlAnyway. The call runs in its own goroutine; it either returns or is
// seen (goroutine snapshot) asleep in its retry loop, i.e. it was refused for capacity at least once. The retry loop is
// then resolved as the script line says: `p` — PopAnyway as many items as the reference says are in the way, `c` —
// Close; afterwards the call must return (3 s guard — reached only by a call that never terminates).
func (r *runner) addAnyway(ctrl bool, x int, resolvePop bool) string {
	sh := &r.sh
	site := map[string]string{"q": "AddReqAnyway", "async": "AddAnyway", "mux": "AddReqAnyway", "mq": "AddReqAnyway"}[r.kind]
	if ctrl {
		site = "AddCtrlAnyway"
	}
	lst, cp := &sh.req, sh.rCap
	if ctrl {
		lst, cp = &sh.ctrl, sh.ctrlCap
	}
	full := cp > 0 && len(*lst) >= cp
	t := r.s.Go("addany", func() string {
		if ctrl {
			s, _ := r.lq.addcany(x)
			return s
		}
		s, _ := r.lq.addany(x)
		return s
	})
	done := func() bool { d, _ := t.Done(); return d }
	retrying, err := c12sched.DoneOrRetrying(done, []string{"AddReqAnyway", "AddAnyway", "AddCtrlAnyway"}, 10*time.Second)
	if err != nil {
		r.dead = "harness:" + err.Error()
		return "harness-error"
	}
	if !retrying {
		_, res := t.Done()
		switch {
		case sh.closed:
			if res != "closed" {
				r.hit(site, "closed-queue-accepts-add", fmt.Sprintf("%s on a closed queue returned %s", site, res))
			}
		case full:
			r.hit(site, "returns-while-full", fmt.Sprintf("%s returned %s with %d items, capacity %d, without waiting for room", site, res, len(*lst), cp))
		case res != "ok":
			r.hit(site, "result", fmt.Sprintf("%s on an open queue below capacity returned %s", site, res))
		}
		if res == "ok" {
			*lst = append(*lst, x)
		}
		return res
	}
	if sh.closed || !full {
		r.hit(site, "retries-although-not-full", fmt.Sprintf("%s keeps retrying with %d items, capacity %d, closed=%v", site, len(*lst), cp, sh.closed))
	}
	var popped []string
	if resolvePop {
		k := len(*lst) - cp + 1
		if !ctrl {
			k += len(sh.ctrl) // PopAnyway hands out control items first
		}
		for i := 0; i < k && len(sh.ctrl)+len(sh.req) > 0; i++ {
			// never call a blocking method on the script's own goroutine: if the queue is (wrongly) empty the call parks
			res := r.blocking(func() string { s, _ := r.lq.popany(); return s })
			r.checkPop("popany", res, true, false, r.kind == "mq")
			popped = append(popped, res)
			if !strings.HasPrefix(res, "v:") {
				break
			}
		}
	} else {
		r.lq.close()
		sh.closed = true
	}
	guard := 3 * time.Second
	deadline := time.Now().Add(guard)
	for !done() && time.Now().Before(deadline) {
		time.Sleep(50 * time.Microsecond)
	}
	fin := "forever"
	if done() {
		_, fin = t.Done()
	} else {
		r.hit(site, "does-not-terminate", fmt.Sprintf("%s is still retrying (3 s guard) after %s", site, map[bool]string{true: "room was made", false: "the queue was closed"}[resolvePop]))
		r.dead = "leaked-retry-loop"
		neverEnding++
		// the goroutine cannot be stopped: keep it out of later quiescence tests; later *Anyway lines are skipped
		c12sched.Ignore = []string{"AddReqAnyway", "AddAnyway", "AddCtrlAnyway"}
	}
	switch {
	case resolvePop && fin == "ok":
		*lst = append(*lst, x) // accepted at the back once there was room
	case resolvePop && fin != "forever":
		r.hit(site, "result", fmt.Sprintf("%s returned %s after room was made on an open queue", site, fin))
	case !resolvePop && fin != "closed" && fin != "forever":
		r.hit(site, "closed-queue-accepts-add", fmt.Sprintf("%s returned %s after the queue was closed", site, fin))
		if fin == "ok" {
			*lst = append(*lst, x)
		}
	}
	return "spun:[" + strings.Join(popped, ",") + "]:" + fin
}

// checkPop: monitors for a pop-like result. drains = the call hands out residue after close (PopAnyway, SyncQueue).
func (r *runner) checkPop(site, res string, drains, empty, isMQ bool) {
	sh := &r.sh
	switch {
	case empty && !sh.closed:
		if res != "would-block" {
			r.hit(site, "blocks-iff-empty-and-open", "pop on an empty open queue returned "+res)
		}
	case empty && sh.closed:
		want := "closed"
		if site == "pop" && r.kind == "syncq" {
			want = "nil"
		}
		if res != want {
			r.hit(site, "closed-and-empty-reports-closed", "pop on a closed empty queue returned "+res)
		}
	case sh.closed && !drains:
		if res != "closed" {
			r.hit(site, "pop-after-close-must-fail", fmt.Sprintf("Pop on a closed queue holding %d items returned %s", len(sh.ctrl)+len(sh.req), res))
			if v, ok := parseVal(res); ok { // keep the reference in step with what was really handed out
				sh.ctrl, sh.req = remove(sh.ctrl, v), remove(sh.req, v)
			}
		}
	default:
		// must hand out the front item: control list first
		var want int
		from := &sh.req
		if len(sh.ctrl) > 0 {
			from = &sh.ctrl
		}
		want = (*from)[0]
		if res != showItem(want) {
			what := "order"
			if v, ok := parseVal(res); ok && !contains(sh.ctrl, v) && !contains(sh.req, v) {
				what = "lost-duplicated-or-invented-item"
			} else if !ok {
				what = "item-withheld"
			} else if isMQ && len(sh.ctrl) > 0 && contains(sh.req, v) {
				what = "control-before-request"
			}
			r.hit(site, what, fmt.Sprintf("expected item %d (ctrl=%v req=%v closed=%v), got %s", want, sh.ctrl, sh.req, sh.closed, res))
			if v, ok := parseVal(res); ok {
				sh.ctrl, sh.req = remove(sh.ctrl, v), remove(sh.req, v)
			}
			return
		}
		*from = (*from)[1:]
	}
}

func showItem(x int) string {
	if x == 0 {
		return "v:nil"
	}
	return "v:" + strconv.Itoa(x)
}

func parseVal(res string) (int, bool) {
	if !strings.HasPrefix(res, "v:") {
		return 0, false
	}
	if res == "v:nil" {
		return 0, true
	}
	n, err := strconv.Atoi(res[2:])
	return n, err == nil
}

func contains(l []int, v int) bool {
	for _, x := range l {
		if x == v {
			return true
		}
	}
	return false
}

func remove(l []int, v int) []int {
	for i, x := range l {
		if x == v {
			return append(append([]int{}, l[:i]...), l[i+1:]...)
		}
	}
	return l
}

func (r *runner) priLine(f []string) string {
	sh := &r.sh
	switch f[0] {
	case "push":
		if len(f) != 3 {
			return "bad-op"
		}
		x, ok1 := atoiStrict(f[1], false)
		p, ok2 := atoiStrict(f[2], true)
		if !ok1 || !ok2 {
			return "bad-op"
		}
		err := r.pq.Push(entry{x, p})
		res := "ok"
		if err == priq.ErrQueueIsFull {
			res = "full"
		} else if err != nil {
			res = "err:" + err.Error()
		}
		wantFull := len(sh.pents) >= sh.pcap
		if wantFull != (res == "full") {
			r.hit("Push", "full-iff-at-capacity", fmt.Sprintf("Push returned %s with %d entries, capacity %d", res, len(sh.pents), sh.pcap))
		}
		if res == "ok" {
			sh.pseq++
			sh.pents = append(sh.pents, pent{x, p, sh.pseq})
		}
		return res
	case "pop":
		if len(f) != 1 {
			return "bad-op"
		}
		e := r.pq.Pop()
		if e == nil {
			if len(sh.pents) != 0 {
				r.hit("Pop", "item-withheld", fmt.Sprintf("Pop returned nil with %d entries", len(sh.pents)))
			}
			return "nil"
		}
		it := e.(entry)
		res := "v:" + strconv.Itoa(it.item)
		// expected: highest priority, earliest push among equals
		bi := -1
		for i, c := range sh.pents {
			if bi < 0 || c.prio > sh.pents[bi].prio || (c.prio == sh.pents[bi].prio && c.seq < sh.pents[bi].seq) {
				bi = i
			}
		}
		gi := -1
		for i, c := range sh.pents {
			if c.item == it.item && c.prio == it.prio {
				gi = i
				break
			}
		}
		switch {
		case gi < 0:
			r.hit("Pop", "lost-duplicated-or-invented-item", fmt.Sprintf("Pop returned %v which is not in the queue %v", it, sh.pents))
			return res
		case gi != bi && sh.pents[gi].prio != sh.pents[bi].prio:
			r.hit("Pop", "highest-priority-first", fmt.Sprintf("Pop returned %v while %v waits (entries %v)", sh.pents[gi], sh.pents[bi], sh.pents))
		case gi != bi:
			r.hit("Pop", "fifo-among-equal-priorities", fmt.Sprintf("Pop returned %v while the earlier %v of the same priority waits", sh.pents[gi], sh.pents[bi]))
		}
		sh.pents = append(append([]pent{}, sh.pents[:gi]...), sh.pents[gi+1:]...)
		return res
	case "len":
		if len(f) != 1 {
			return "bad-op"
		}
		n := r.pq.Len()
		if n != len(sh.pents) {
			r.hit("Len", "value", fmt.Sprintf("Len=%d with %d accepted and not yet popped entries", n, len(sh.pents)))
		}
		return strconv.Itoa(n)
	}
	return "bad-op"
}

func runCase(c corr.Case) (res corr.Result) {
	if len(c.Lines) == 1 && strings.HasPrefix(c.Lines[0], "stress ") {
		out, hits := c12stress.Line("C12", strings.Fields(c.Lines[0]))
		return corr.Result{Outs: []string{out}, Hits: hits}
	}
	if len(c.Lines) > 0 && strings.HasPrefix(c.Lines[0], "cnew ") {
		// a concurrency script: blocking consumers, bursts, quiescence monitors — the scheduler-driven runner shared
		// with C13 (its hits are reported under C12 keys)
		lines := append([]string{strings.TrimPrefix(c.Lines[0], "c")}, c.Lines[1:]...)
		return c13run.RunCase("C12", corr.Case{Lines: lines, Tag: c.Tag})
	}
	r := &runner{s: sched.New(), seen: map[string]bool{}}
	defer func() {
		if p := recover(); p != nil {
			for len(res.Outs) < len(c.Lines) {
				res.Outs = append(res.Outs, fmt.Sprintf("panic:%v", p))
			}
			res.Hits = append(res.Hits, corr.Hit{Key: "C12:" + r.kind + ":panic", What: fmt.Sprint(p)})
		}
	}()
	for _, l := range c.Lines {
		res.Outs = append(res.Outs, r.line(l))
	}
	res.Hits = r.hits
	return res
}

// ---------------------------------------------------------------- generators

var kinds = []string{"q", "async", "mux", "mq", "syncq", "priq"}

// extreme priorities: pairs more than MaxInt64 apart (a difference-based Less overflows on them)
var extremePrios = []string{"-9223372036854775808", "-9223372036854775807", "-1", "0", "1", "9223372036854775806", "9223372036854775807",
	"4611686018427387904", "-4611686018427387905"}

func prio(r *rng.R, extreme bool) string {
	if extreme && r.Chance(1, 2) {
		return r.Pick(extremePrios...)
	}
	return strconv.Itoa(r.PickInt(0, 1, 1, 2, 2, -1, 5))
}

func newLine(r *rng.R, kind string) string {
	cp := func() int { return r.PickInt(0, 0, 1, 1, 2, 2, 3, 3, 4, -1, 7) }
	switch kind {
	case "mq":
		return fmt.Sprintf("new mq %d %d", cp(), cp())
	case "syncq":
		return "new syncq"
	case "priq":
		return fmt.Sprintf("new priq %d", r.PickInt(0, 1, 2, 3, 3, 4, 5, 8, -1))
	}
	return fmt.Sprintf("new %s %d", kind, cp())
}

func genScript(r *rng.R, kind string, n int) corr.Case {
	lines := []string{newLine(r, kind)}
	next := 1
	item := func() string {
		if kind != "syncq" && kind != "priq" && r.Chance(1, 10) {
			return "nil" // nil is a legal item (interface{}); it counts like any other in order and conservation
		}
		next++
		return strconv.Itoa(next - 1)
	}
	extreme := r.Chance(1, 3) // a third of the PriQueue histories mix in extreme priorities
	size, closed := 0, false  // rough estimate, only steers the generator (never decides a result)
	closeAt := -1             // at most one close, in the second half (a third of the histories never close)
	if r.Chance(2, 3) {
		closeAt = r.Range(n/2, n-1)
	}
	for i := 0; i < n; i++ {
		var l string
		k := r.Intn(100)
		if kind == "priq" {
			switch {
			case k < 55:
				l = "push " + item() + " " + prio(r, extreme)
			case k < 90:
				l = "pop"
			default:
				l = "len"
			}
			lines = append(lines, l)
			continue
		}
		switch {
		case i == closeAt:
			l = "close"
			closed = true
		case k < 8 && kind != "syncq":
			// the *Anyway adds: mostly resolved by popping (the history goes on), sometimes by closing
			op := "addany "
			if kind == "mq" && r.Chance(1, 3) {
				op = "addcany "
			}
			res := " p"
			if r.Chance(1, 6) {
				res = " c" // closes the queue if the add has to wait (the generator does not know whether it will)
			}
			l = op + item() + res
			size++
		case k < 30:
			l = "add " + item()
			size++
		case k < 40 && kind != "syncq":
			l = "prior " + item()
			size++
		case k < 56 && kind == "mq":
			l = r.Pick("addc ", "addc ", "addc ", "priorc ") + item()
			size++
		case k < 70:
			// a pop that would block is issued rarely (it costs a quiescence round), mostly when something is there
			if size <= 0 && !closed && !r.Chance(1, 6) {
				l = "add " + item()
				size++
			} else {
				l = "pop"
				size--
			}
		case k < 82:
			if size <= 0 && !closed && !r.Chance(1, 6) {
				l = "add " + item()
				size++
			} else if kind == "syncq" {
				l = "trypop"
				size--
			} else {
				l = "popany"
				size--
			}
		case k < 84 && closed:
			l = "close" // closing again is a no-op
		case k < 90 && kind == "mq":
			l = r.Pick("tryclose", "tryclear", "tryclear", "cleared?")
		case k < 94 && kind == "syncq":
			l = r.Pick("len", "trypop")
		case k < 93 && kind == "async":
			l = "size?"
		case k < 94 && (kind == "mux" || kind == "mq"):
			l = "waitclose"
			if kind == "mq" && r.Chance(1, 3) {
				l = "waitclear"
			}
		case k < 96 && kind != "q" && kind != "syncq":
			l = "closed?"
		default:
			l = "add " + item()
			size++
		}
		if size < 0 {
			size = 0
		}
		lines = append(lines, l)
	}
	return corr.Case{Tag: "hist-" + kind, Lines: lines}
}

// drain: fill to and past the capacity, close with residue, then Pop / PopAnyway until closed
func genDrain(r *rng.R, kind string) corr.Case {
	lines := []string{newLine(r, kind)}
	n := r.Range(1, 6)
	for i := 1; i <= n; i++ {
		switch {
		case kind == "priq":
			lines = append(lines, fmt.Sprintf("push %d %s", i, prio(r, n%2 == 0)))
		case kind == "mq" && r.Chance(1, 3):
			lines = append(lines, fmt.Sprintf("%s %d", r.Pick("addc", "priorc"), i))
		case kind != "syncq" && r.Chance(1, 4):
			lines = append(lines, fmt.Sprintf("prior %d", i))
		default:
			lines = append(lines, fmt.Sprintf("add %d", i))
		}
	}
	if kind == "priq" {
		for i := 0; i <= n; i++ {
			lines = append(lines, "pop")
		}
		return corr.Case{Tag: "drain-priq", Lines: lines}
	}
	if kind == "mq" {
		lines = append(lines, "tryclose", "tryclear")
	}
	lines = append(lines, "close", fmt.Sprintf("add %d", n+1))
	if kind != "syncq" {
		lines = append(lines, fmt.Sprintf("prior %d", n+2), "pop")
	}
	for i := 0; i <= n; i++ {
		if kind == "syncq" {
			lines = append(lines, r.Pick("pop", "trypop"))
		} else {
			lines = append(lines, "popany")
		}
	}
	if kind == "mq" {
		lines = append(lines, "tryclear", "cleared?", "tryclose")
	}
	return corr.Case{Tag: "drain-" + kind, Lines: lines}
}

var junk = []string{"add 0", "addn 3", "addn 2 0", "drain", "drain 1", "cnew", "add nil x", "addany 1", "addany 1 x", "addany x p", "addcany 2 p", "addany 3 p", "size?", "waitclose", "waitclear", "waitclose 1", "add", "add x", "add 1 2", "add -1", "prior", "pop 1", "popany x", "close now", "foo", "new", "new q", "new q x",
	"new mq 1", "new priq", "new syncq 3", "push 1", "push 1 x", "push x 1", "len 1", "trypop", "tryclose", "tryclear", "cleared?",
	"closed?", "len", "addc 1", "priorc 2", "push 3 1", "popany", "prior 4", "new heap 3", "ADD 1", "add 1a"}

// concurrency script: consumers block on the empty queue, then items arrive one by one or in bursts, then a close
func genConc(r *rng.R, kind string) corr.Case {
	first := "cnew " + kind + " " + strconv.Itoa(r.PickInt(0, 0, 1, 2, 3))
	if kind == "mq" {
		first = fmt.Sprintf("cnew mq %d %d", r.PickInt(0, 1, 2), r.PickInt(0, 1, 2))
	} else if kind == "syncq" {
		first = "cnew syncq"
	}
	lines := []string{first}
	next := 1
	item := func() string {
		if kind != "syncq" && r.Chance(1, 10) {
			return "nil"
		}
		next++
		return strconv.Itoa(next - 1)
	}
	ev := func(allowClose bool) string {
		switch k := r.Intn(10); {
		case k < 6:
			return "add " + item()
		case k < 7 && kind != "syncq":
			return "prior " + item()
		case k < 8 && kind == "mq":
			return "addc " + item()
		case k < 9 && allowClose:
			return "close"
		}
		return "add " + item()
	}
	for round := 0; round < r.Range(1, 3); round++ {
		for i := 0; i < r.Range(1, 3); i++ {
			if kind != "syncq" && r.Chance(1, 3) {
				lines = append(lines, "popany")
			} else {
				lines = append(lines, "pop")
			}
		}
		if r.Chance(2, 3) {
			var evs []string
			for i := 0; i < r.Range(2, 3); i++ {
				evs = append(evs, ev(i > 0))
			}
			lines = append(lines, "atomic "+strings.Join(evs, " ; "))
		} else {
			for i := 0; i < r.Range(1, 3); i++ {
				lines = append(lines, ev(true))
			}
		}
	}
	return corr.Case{Tag: "conc-" + kind, Lines: lines}
}

func genMalformed(r *rng.R) corr.Case {
	var lines []string
	if r.Chance(2, 3) {
		lines = append(lines, newLine(r, r.Pick(kinds...)))
	} else {
		lines = append(lines, r.Pick("new", "new q", "new q x", "new mq 1", "new priq", "new syncq 3", "new heap 3", "new mux 1 2"))
	}
	for i := 0; i < r.Range(3, 12); i++ {
		if r.Chance(1, 3) {
			lines = append(lines, "add "+strconv.Itoa(i+1))
		} else {
			lines = append(lines, r.Pick(junk...))
		}
	}
	return corr.Case{Tag: "malformed", Lines: lines}
}

func fixedCases() []corr.Case {
	mk := func(tag string, ls ...string) corr.Case { return corr.Case{Tag: tag, Lines: ls} }
	cs := []corr.Case{
		// bound: refused exactly at capacity; prior add bypasses it; close with residue; Pop vs PopAnyway
		mk("fixed", "new q 2", "add 1", "add 2", "add 3", "prior 4", "pop", "add 5", "close", "add 6", "prior 7", "pop", "popany", "popany", "popany", "popany"),
		mk("fixed", "new async 1", "closed?", "add 1", "add 2", "prior 3", "prior 4", "popany", "close", "closed?", "pop", "popany", "popany", "popany", "pop"),
		mk("fixed", "new mux 0", "add 1", "add 2", "add 3", "add 4", "pop", "prior 5", "pop", "pop", "close", "close", "closed?", "popany", "popany", "popany"),
		mk("fixed", "new mux -1", "add 1", "add 2", "pop", "pop", "pop", "add 3", "pop"),
		mk("fixed", "new mq 1 2", "add 1", "add 2", "add 3", "addc 4", "addc 5", "priorc 6", "prior 7", "pop", "pop", "pop", "tryclose", "tryclear", "popany", "popany", "popany", "tryclose", "tryclear", "cleared?", "closed?", "add 8", "addc 9", "pop", "popany", "tryclear"),
		mk("fixed", "new mq 0 0", "tryclear", "add 1", "tryclose", "close", "tryclose", "tryclear", "pop", "popany", "tryclear", "tryclear", "popany"),
		mk("fixed", "new syncq", "len", "trypop", "add 1", "add 2", "len", "pop", "close", "add 3", "len", "trypop", "trypop", "pop", "len"),
		mk("fixed", "new syncq", "pop", "add 1", "pop", "pop", "close", "pop"),
		mk("fixed", "new priq 3", "pop", "push 1 1", "push 2 5", "push 3 1", "push 4 5", "len", "pop", "pop", "push 5 1", "pop", "pop", "pop", "pop"),
		// extreme priorities: every pair more than MaxInt64 apart must still come out highest first, FIFO among equals
		mk("fixed", "new priq 8", "push 1 -1", "push 2 9223372036854775807", "pop", "pop"),
		mk("fixed", "new priq 8", "push 1 -9223372036854775808", "push 2 1", "pop", "pop"),
		mk("fixed", "new priq 8", "push 1 -9223372036854775807", "push 2 9223372036854775807", "push 3 0", "push 4 -9223372036854775808",
			"push 5 9223372036854775806", "push 6 9223372036854775807", "push 7 -1", "push 8 1", "pop", "pop", "pop", "pop", "pop", "pop", "pop", "pop", "pop"),
		mk("fixed", "new priq 4", "push 1 0", "push 2 -9223372036854775808", "push 3 9223372036854775807", "push 4 0", "pop", "push 5 -9223372036854775808", "pop", "pop", "pop", "pop"),
		mk("fixed", "new priq 0", "push 1 1", "pop", "len"),
		mk("fixed", "new priq -1", "push 1 1", "pop"),
		mk("fixed", "new q 1", "pop", "popany", "add 1", "pop", "pop"),
		// *Anyway adds: accepted at the back below capacity; wait while full and are accepted at the back once PopAnyway
		// made room (also after a prior add overfilled the queue); return `closed` on a closed queue, also when that
		// happens while they wait
		mk("anyway", "new q 2", "addany 1 p", "addany 2 p", "addany 3 p", "prior 4", "addany 5 p", "popany", "popany", "popany", "close", "addany 6 p", "addany 7 c"),
		mk("anyway", "new async 1", "size?", "addany 1 c", "addany 2 c", "addany 3 c", "closed?", "popany", "popany"),
		mk("anyway", "new mux 1", "waitclose", "add 1", "addany 2 p", "addany 3 c", "waitclose", "popany", "popany"),
		mk("anyway", "new mq 1 1", "addcany 1 p", "addany 2 p", "addcany 3 p", "addany 4 p", "waitclear", "waitclose", "addcany 5 c", "waitclose", "addany 6 p", "popany", "popany", "tryclear", "waitclear"),
		mk("anyway", "new mq 2 1", "add 1", "addc 2", "priorc 3", "priorc 4", "addany 5 p", "pop", "addcany 6 p"),
		mk("anyway", "new q 0", "addany 1 p", "addany 2 c", "pop", "close", "addany 3 c"),
		// nil items are handed out like any other item
		mk("nil", "new q 2", "add nil", "add 1", "add nil", "prior nil", "pop", "pop", "popany", "close", "pop", "popany"),
		mk("nil", "new async 0", "add nil", "add nil", "addany nil p", "pop", "popany", "pop", "pop"),
		mk("nil", "new mux 1", "add nil", "addany 2 p", "pop", "pop"),
		mk("nil", "new mq 1 1", "addc nil", "add nil", "addcany nil p", "pop", "pop", "priorc nil", "close", "popany", "popany"),
		// a long backlog, drained, then single items again (ring buffers grow, shrink, may be swapped)
		mk("bulk", "new syncq", "addn 4200 1000", "len", "drain", "len", "add 7", "pop", "pop", "add 8", "trypop", "addn 20 9000", "drain"),
		mk("bulk", "new syncq", "addn 20 1", "drain", "addn 5000 100", "pop", "drain", "pop", "add 1", "pop", "close", "addn 3 7", "drain"),
		mk("bulk", "new q 0", "addn 300 1", "pop", "popany", "close", "popany"),
		// 0 (or a negative size) = unbounded: far more than any default size is accepted
		mk("unbounded", "new q 0", "addn 9000 1", "pop", "add 9999", "close"),
		mk("unbounded", "new async 0", "size?", "addn 9000 1", "pop"),
		mk("unbounded", "new async -1", "size?", "addn 9000 1", "popany"),
		mk("unbounded", "new mux -5", "addn 9000 1", "pop"),
		mk("unbounded", "new mq 0 -1", "addn 9000 1", "addc 1", "pop", "pop"),
		// the ring buffer of eapache/queue holds 2^k slots: exactly full, one below, one above, then look at it
		mk("ring", "new syncq", "addn 15 1", "len", "trypop", "len", "pop", "add 999", "len", "drain", "len", "trypop"),
		mk("ring", "new syncq", "addn 16 1", "len", "trypop", "len", "pop", "add 999", "len", "drain", "len", "trypop"),
		mk("ring", "new syncq", "addn 17 1", "len", "trypop", "len", "pop", "add 999", "len", "drain", "len", "trypop"),
		mk("ring", "new syncq", "addn 31 1", "len", "trypop", "len", "pop", "add 999", "len", "drain", "len", "trypop"),
		mk("ring", "new syncq", "addn 32 1", "len", "trypop", "len", "pop", "add 999", "len", "drain", "len", "trypop"),
		mk("ring", "new syncq", "addn 33 1", "len", "trypop", "len", "pop", "add 999", "len", "drain", "len", "trypop"),
		mk("ring", "new syncq", "addn 63 1", "len", "trypop", "len", "pop", "add 999", "len", "drain", "len", "trypop"),
		mk("ring", "new syncq", "addn 64 1", "len", "trypop", "len", "pop", "add 999", "len", "drain", "len", "trypop"),
		mk("ring", "new syncq", "addn 65 1", "len", "trypop", "len", "pop", "add 999", "len", "drain", "len", "trypop"),
		mk("ring", "new syncq", "addn 127 1", "len", "trypop", "len", "pop", "add 999", "len", "drain", "len", "trypop"),
		mk("ring", "new syncq", "addn 128 1", "len", "trypop", "len", "pop", "add 999", "len", "drain", "len", "trypop"),
		mk("ring", "new syncq", "addn 129 1", "len", "trypop", "len", "pop", "add 999", "len", "drain", "len", "trypop"),
		mk("ring", "new syncq", "addn 16 1", "pop", "pop", "addn 2 100", "len", "addn 14 200", "len", "trypop", "drain"),
		mk("ring", "cnew syncq", "addn 16 1", "pop", "pop"),
		mk("ring", "cnew syncq", "addn 32 1", "pop", "addn 31 100", "pop", "pop"),
		// concurrency scripts (`cnew`): blocked consumers and bursts, run by the scheduler-driven runner of C13
		// barging: the consumer is signalled, a TryPop takes the item before it runs, it parks again — the next push must
		// still wake it
		mk("barge", "cnew syncq", "pop", "atomic add 1 ; trypop", "add 2", "pop", "atomic add 3 ; trypop", "add 4", "close"),
		mk("barge", "cnew syncq", "pop", "pop", "atomic add 1 ; add 2 ; trypop ; trypop", "add 3", "add 4"),
		mk("barge", "cnew syncq", "pop", "atomic add 1 ; trypop ; add 2 ; trypop ; add 3"),
		mk("conc", "cnew syncq", "pop", "pop", "atomic add 1 ; add 2"),
		mk("conc", "cnew syncq", "pop", "pop", "pop", "atomic add 1 ; add 2 ; add 3", "close"),
		mk("conc", "cnew q 0", "pop", "atomic add 1 ; close", "popany"),
		mk("conc", "cnew async 1", "pop", "popany", "atomic add 1 ; close"),
		mk("conc", "cnew mux 0", "pop", "pop", "atomic add nil ; add 2 ; close"),
		mk("conc", "cnew mq 0 0", "pop", "pop", "atomic addc 1 ; add 2", "atomic add 3 ; close"),
		mk("conc", "cnew syncq", "addn 4200 1000", "drain", "pop", "add 7", "pop", "add 8"),
		mk("conc", "cnew mux 1", "add 1", "addany 2", "pop", "pop", "settle", "settle"),
	}
	return cs
}

func baseCount(tier string) int {
	switch tier {
	case "quick":
		return 4200
	case "thorough":
		return 60000
	}
	return 90000
}

func spec() corr.Spec {
	return corr.Spec{
		Property: "C12",
		Fixed:    fixedCases,
		Count:    func(tier string) int { return baseCount(tier) + len(c12stress.Cases(tier, true)) },
		Shards: func(tier string) int {
			if tier == "quick" {
				return 4
			}
			return 12
		},
		Gen: func(r *rng.R, tier string, i int) corr.Case {
			if i >= baseCount(tier) { // the parallel stress class (child processes)
				return c12stress.Cases(tier, true)[i-baseCount(tier)]
			}
			kind := kinds[i%len(kinds)]
			switch k := r.Intn(20); {
			case k == 0:
				return genMalformed(r)
			case k == 1 && kind != "priq":
				return genConc(r, kind)
			case k < 5:
				return genDrain(r, kind)
			case k < 8:
				return genScript(r, kind, r.Range(30, 60))
			}
			return genScript(r, kind, r.Range(4, 24))
		},
		// every script runs in a worker child process: a fatal error or a call that never returns is a hit, not a dead runner
		Run: func(c corr.Case) corr.Result {
			if len(c.Lines) == 1 && strings.HasPrefix(c.Lines[0], "stress ") {
				return runCase(c) // already a child process of its own
			}
			return c12worker.Run("C12", c)
		},
		NonTrivial: func(c corr.Case, r corr.Result) bool {
			// at least one item accepted and at least one item handed out
			acc, got := false, false
			for i, o := range r.Outs {
				if o == "ok" && i > 0 {
					acc = true
				}
				if strings.HasPrefix(o, "v:") {
					got = true
				}
			}
			return acc && got
		},
		Rule: "operation histories on one queue of each of the six types (capacities -1..7, mostly 0..3; priorities from {-1,0,1,2,5}; distinct item values), classes: random histories of 4..60 ops, fill/close-with-residue/drain scripts, malformed lines; a pop that would block is really issued, observed parked by a goroutine snapshot and released with a sentinel; non-trivial = some add accepted and some item handed out; distinct = distinct script text",
		Assumptions: []string{
			"container/list, eapache/queue and container/heap behave as their contracts (front/back list, FIFO ring, minimum extraction) — modelled, validated by the correspondence",
			"sequential exploration: one call at a time; blocking behaviour is C13's subject",
		},
		Trusted: []string{"go/lib/sched quiescence detection (goroutine states of go1.23) for the `would-block` verdict", "go/lib/c12facts shape classifier"},
	}
}
