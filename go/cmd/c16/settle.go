package main

import (
	"bytes"
	"fmt"
	"runtime"
	"strings"
	"time"
)

// G is one goroutine of a stop-the-world dump (same information as G; the dump buffer is reused between
// calls because a script takes thousands of snapshots).
type G struct {
	State string
	Text  string
}

var snapBuf = make([]byte, 1<<16)

// snapshot returns all goroutines, the caller first. Only the harness goroutine calls it.
func snapshot() []G {
	var n int
	for {
		n = runtime.Stack(snapBuf, true)
		if n < len(snapBuf) {
			break
		}
		snapBuf = make([]byte, 2*len(snapBuf))
	}
	var gs []G
	for _, blk := range bytes.Split(snapBuf[:n], []byte("\n\n")) {
		// header: "goroutine <id> [<state>(, <n> minutes)(, locked to thread)]:"
		if !bytes.HasPrefix(blk, []byte("goroutine ")) {
			continue
		}
		eol := bytes.IndexByte(blk, '\n')
		if eol < 0 {
			eol = len(blk)
		}
		hdr := blk[:eol]
		lb, rb := bytes.IndexByte(hdr, '['), bytes.LastIndexByte(hdr, ']')
		if lb < 0 || rb < lb {
			continue
		}
		st := string(hdr[lb+1 : rb])
		if i := strings.Index(st, ","); i >= 0 {
			st = st[:i]
		}
		gs = append(gs, G{State: strings.TrimSpace(st), Text: string(blk)})
	}
	return gs
}

// Quiescence detection for the C16 worlds, built on a stop-the-world goroutine dump (as lib/sched does).
// It differs from sched.Settle in two points that matter here:
//   - a goroutine in state `semacquire` is parked only when its first frame is a `sync.` function; otherwise it
//     waits on a runtime-internal semaphore (an allocation that starts a GC cycle waits for the world semaphore
//     the snapshot itself holds) and is about to run;
//   - goroutines of this command's own package (`main.…`, files under /cmd/c16/) are relevant too.
// No guess is made: an unknown state counts as active, and no quiescent snapshot within the deadline is an error.

var parkedStates = map[string]bool{
	"chan receive": true, "chan send": true, "select": true, "select (no cases)": true,
	"sync.Cond.Wait": true, "sync.Mutex.Lock": true, "sync.RWMutex.RLock": true, "sync.RWMutex.Lock": true,
	"sync.WaitGroup.Wait": true, "IO wait": true, "chan receive (nil chan)": true, "chan send (nil chan)": true,
}

var markers = []string{"github.com/pinealctx/neptune/", "nvharness/", "/cmd/c16/"}

func relevantG(g G) bool {
	for _, m := range markers {
		if strings.Contains(g.Text, m) {
			return true
		}
	}
	return false
}

func firstFrame(text string) string {
	lines := strings.SplitN(text, "\n", 3)
	if len(lines) < 2 {
		return ""
	}
	return lines[1]
}

func parkedG(g G) bool {
	if parkedStates[g.State] {
		return true
	}
	if g.State == "semacquire" {
		return strings.HasPrefix(firstFrame(g.Text), "sync.")
	}
	return false
}

const settleTimeout = 10 * time.Second

// settleQuiet waits until every relevant goroutine other than the caller is parked.
func settleQuiet() error { return settleWithin(settleTimeout) }

func settleWithin(timeout time.Duration) error {
	deadline := time.Now().Add(timeout)
	sleep := 20 * time.Microsecond
	var last string
	for {
		runtime.Gosched()
		quiet := true
		for i, g := range snapshot() {
			if i == 0 || !relevantG(g) || parkedG(g) {
				continue // the first block is the calling goroutine
			}
			quiet = false
			last = g.Text
			break
		}
		if quiet {
			return nil
		}
		if time.Now().After(deadline) {
			return fmt.Errorf("no quiescent snapshot within %v; still active:\n%s", timeout, last)
		}
		time.Sleep(sleep)
		if sleep < 2*time.Millisecond {
			sleep *= 2
		}
	}
}

// quietNow reports whether, right now, every relevant goroutine other than the caller is parked.
func quietNow() bool {
	for i, g := range snapshot() {
		if i == 0 || !relevantG(g) || parkedG(g) {
			continue
		}
		return false
	}
	return true
}
