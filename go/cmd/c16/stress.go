package main

import (
	"bytes"
	"fmt"
	"net"
	"runtime"
	"sync"
	"sync/atomic"
	"time"

	"github.com/pinealctx/neptune/stcp"

	"nvharness/lib/rng"
)

// Stress scenarios: one script line runs a whole concurrent scenario on the real code and is judged by the
// P-invariants only (exit callback exactly once, count back to its previous value, both loops gone, the peer's bytes a
// prefix of the accepted Sends — and all of them when nothing but the local Close ended the session). The line's
// result is always `done`; what goes wrong is a monitor hit. The interleavings are the Go scheduler's: the seed fixes
// the inputs (payloads, how often each goroutine yields), not the schedule.

type stressHandler struct {
	exits int32
}

func (h *stressHandler) Read(s *stcp.Session) error {
	var b [1]byte
	if err := s.Read(b[:]); err != nil { // ends on a read error
		return err
	}
	switch b[0] {
	case 'p':
		panic("c16-handler-panic")
	case 'e':
		return errHandler
	}
	return nil
}
func (h *stressHandler) OnExit(s *stcp.Session) { atomic.AddInt32(&h.exits, 1) }

func yield(n int) {
	for i := 0; i < n; i++ {
		runtime.Gosched()
	}
}

func (w *world) stress(kind string, seed uint64) string {
	r := rng.New(seed ^ 0xC16)
	switch kind {
	case "race":
		for i := 0; i < 10 && w.dead == ""; i++ {
			w.stressRace(r.Fork(uint64(i)), i)
		}
	case "big":
		w.stressBig(r)
	case "par":
		w.stressPar(r)
	}
	w.settle(func() bool { return true })
	return "done"
}

// stressRace: over net.Pipe, one goroutine Sends a sequence of payloads, another calls Close() (sometimes twice,
// sometimes also Start() again), a third — in a third of the runs — closes the peer's end; the peer reads all the time.
func (w *world) stressRace(r *rng.R, iter int) {
	h := &stressHandler{}
	mgr := stcp.NewSessionMgr(h, stcp.WithReadTimeout(longTimeout), stcp.WithWriteTimeout(longTimeout))
	before := mgr.ConnCount()
	a, b := net.Pipe()
	s := stcp.NewSession(mgr, a)
	s.Start()
	var mu sync.Mutex
	var got []byte
	drained := make(chan struct{})
	go func() {
		defer close(drained)
		buf := make([]byte, 7)
		for {
			n, err := b.Read(buf)
			mu.Lock()
			got = append(got, buf[:n]...)
			mu.Unlock()
			if err != nil {
				return
			}
		}
	}()
	nsend := r.Range(1, 8)
	payloads := make([][]byte, nsend)
	for i := range payloads {
		p := make([]byte, r.Range(1, 5))
		for j := range p {
			p[j] = byte(16*i + j + 1)
		}
		payloads[i] = p
	}
	ySend, yClose, yPeer := r.Intn(30), r.Intn(60), r.Intn(60)
	peerCloses := r.Chance(1, 3)
	twice, restart := r.Chance(1, 4), r.Chance(1, 4)
	var accepted [][]byte
	var wg sync.WaitGroup
	wg.Add(2)
	go func() {
		defer wg.Done()
		for _, p := range payloads {
			yield(ySend)
			if s.Send(p) == nil {
				accepted = append(accepted, p)
			}
		}
	}()
	go func() {
		defer wg.Done()
		yield(yClose)
		s.Close()
		if twice {
			s.Close()
		}
		if restart {
			s.Start()
		}
	}()
	if peerCloses {
		wg.Add(1)
		go func() {
			defer wg.Done()
			yield(yPeer)
			_ = b.Close()
		}()
	}
	wgDone := make(chan struct{})
	go func() { wg.Wait(); close(wgDone) }()
	if !w.waitDone(wgDone, "stress race: Send / Close / Start from concurrent callers") {
		_ = b.Close()
		return
	}
	// Close() was called: the session must end by itself (the peer reads, or is closed)
	w.quiesce()
	if w.dead != "" || w.spin {
		_ = b.Close()
		return
	}
	ptr := fmt.Sprintf("%p", s)
	where := fmt.Sprintf("stress race, iteration %d (%d sends, peerClose=%v, closeTwice=%v, restart=%v)", iter, nsend, peerCloses, twice, restart)
	if ex := atomic.LoadInt32(&h.exits); ex != 1 {
		w.hit("C16:quit:onexit-not-once", fmt.Sprintf("%s: OnExit ran %d times after a local Close", where, ex))
	}
	if l := loopsOf()[ptr]; l != 0 {
		w.hit("C16:loops:goroutine-left", fmt.Sprintf("%s: %d loop goroutine(s) still running", where, l))
	}
	if n := mgr.ConnCount(); n != before {
		w.hit("C16:count:unbalanced", fmt.Sprintf("%s: ConnCount()=%d, was %d before the session", where, n, before))
	}
	_ = b.Close()
	select {
	case <-drained:
	case <-time.After(ceiling):
		w.dead = "stress race: the peer's reader did not finish"
		return
	}
	all := flatten(accepted)
	mu.Lock()
	defer mu.Unlock()
	if len(got) > len(all) || !bytes.Equal(all[:len(got)], got) {
		w.hit("C16:flush:corrupt-or-reordered", fmt.Sprintf("%s: peer read %x, accepted by Send %x", where, got, all))
	} else if !peerCloses && len(got) < len(all) {
		w.hit("C16:flush:accepted-bytes-lost", fmt.Sprintf("%s: Send accepted %x concurrently with the local Close, the reading peer got only %x", where, all, got))
	}
}

// stressBig: through the real public path (NewTCPSrv + default SessionMgr + Start on loopback TCP): a few payloads of
// 64 KiB .. 1 MiB are queued and the session is closed locally at once, while the peer reads slowly (1 KiB at a time):
// every Write is a partial write many times over; all bytes must arrive, in order, before EOF.
func (w *world) stressBig(r *rng.R) {
	sw := newWorld(1, "pub")
	defer func() {
		sw.destroy()
		for _, h := range sw.hits {
			w.hit(h.key, "stress big: "+h.what)
		}
		if sw.dead != "" && w.dead == "" {
			w.dead = "stress big: " + sw.dead
		}
	}()
	if sw.dead != "" {
		return
	}
	if sw.connect() != "acc0" {
		sw.hit("C16:accept:surplus-not-closed", "the first connection to a fresh public-path server with maxConn=1 was not served")
		return
	}
	cs := sw.sess[0]
	cs.mu.Lock()
	cs.slow = 1024
	s := cs.s
	cs.mu.Unlock()
	n := r.Range(2, 4)
	var all []byte
	for i := 0; i < n; i++ {
		size := r.PickInt(64<<10, 100_000, 256<<10, 1<<20)
		p := make([]byte, size)
		for j := range p {
			p[j] = byte((j*31 + 7*i + 3) % 251)
		}
		var e error
		if ok, _ := sw.call("Session.Send", func() { e = s.Send(p) }); !ok {
			return
		}
		if e == nil {
			all = append(all, p...)
		}
	}
	if ok, _ := sw.call("Session.Close", func() { s.Close() }); !ok {
		return
	}
	cs.closedLocal = true
	// wait for the peer's EOF; the ceiling is generous (megabytes in 1 KiB reads), and running into it with
	// goroutines still busy is a harness error, not a verdict
	deadline := time.Now().Add(6 * ceiling)
	lastLen, lastMove := -1, time.Now()
	for {
		_, _, got, eof, _ := cs.snapshot()
		if eof && sw.ended(cs, loopsOf()) {
			break
		}
		if len(got) != lastLen {
			lastLen, lastMove = len(got), time.Now()
		} else if time.Since(lastMove) > 400*time.Millisecond && quietNow() {
			break // nothing has moved for a while and every goroutine is parked: nothing more will come
		}
		if time.Now().After(deadline) {
			if !quietNow() {
				sw.dead = "ceiling exceeded while goroutines were still running (machine too slow?)"
				return
			}
			break
		}
		time.Sleep(500 * time.Microsecond)
	}
	ex, _, got, eof, _ := cs.snapshot()
	if len(got) > len(all) || !bytes.Equal(all[:len(got)], got) {
		sw.hit("C16:flush:corrupt-or-reordered", fmt.Sprintf("peer read %d bytes that are not a prefix of the %d bytes accepted by Send (default manager, real TCP, slow reader)", len(got), len(all)))
	} else if len(got) < len(all) {
		sw.hit("C16:flush:accepted-bytes-lost", fmt.Sprintf("Send accepted %d bytes before the local Close, the reading peer got only %d before the connection closed (default manager, real TCP, slow reader)", len(all), len(got)))
	}
	if ex != 1 || !eof {
		sw.hit("C16:quit:onexit-not-once", fmt.Sprintf("after a local Close with %d bytes queued: OnExit ran %d times, peer saw EOF=%v", len(all), ex, eof))
	}
	if c := sw.count(); c != 0 {
		sw.hit("C16:count:unbalanced", fmt.Sprintf("ConnCount()=%d after the only session ended", c))
	}
}

// stressPar: MANY sessions of ONE manager started and ended at the same time by several goroutines — by peer close,
// by a panic in the read handler, by a handler error, with and without a value attached (Set): Inc/Dec of the count,
// the exit callbacks and the error-level log lines of `recovery` overlap for real. Afterwards every session has
// ended exactly once and the count is back where it was.
func (w *world) stressPar(r *rng.R) {
	h := &stressHandler{}
	mgr := stcp.NewSessionMgr(h, stcp.WithReadTimeout(longTimeout), stcp.WithWriteTimeout(longTimeout))
	before := mgr.ConnCount()
	const workers, per = 8, 500
	salt := r.Intn(4)
	var wg sync.WaitGroup
	for g := 0; g < workers; g++ {
		wg.Add(1)
		go func(g int) {
			defer wg.Done()
			for i := 0; i < per; i++ {
				a, b := net.Pipe()
				mgr.Do(a)
				switch (i + g + salt) % 4 {
				case 0:
					_, _ = b.Write([]byte{'p'})
				case 1:
					_, _ = b.Write([]byte{'e'})
				case 2:
					yield(1)
				}
				_ = b.Close()
			}
		}(g)
	}
	wgDone := make(chan struct{})
	go func() { wg.Wait(); close(wgDone) }()
	if !w.waitDone(wgDone, "stress par: Do / peer writes from concurrent callers") {
		return
	}
	w.quiesce()
	if w.dead != "" || w.spin {
		return
	}
	total := int32(workers * per)
	if ex := atomic.LoadInt32(&h.exits); ex != total {
		w.hit("C16:quit:onexit-not-once", fmt.Sprintf("stress par: %d sessions of one manager started and ended in parallel, OnExit ran %d times", total, ex))
	}
	if n := mgr.ConnCount(); n != before {
		w.hit("C16:count:unbalanced", fmt.Sprintf("stress par: ConnCount()=%d after %d sessions of one manager started and ended in parallel (was %d before)", n, total, before))
	}
	left := 0
	for _, n := range loopsOf() {
		left += n
	}
	// sessions of the enclosing world may be alive: only loops beyond theirs count
	alive := 0
	for _, cs := range w.sess {
		if ex, _, _, _, _ := cs.snapshot(); ex == 0 {
			alive += 2
		}
	}
	if left > alive {
		w.hit("C16:loops:goroutine-left", fmt.Sprintf("stress par: %d loop goroutine(s) still running after all %d sessions ended", left-alive, total))
	}
}
