package main

import (
	"fmt"
	"os"
	"strings"

	"nvharness/lib/sched"
)

var lastSnap []sched.G

func dbgSettle() {
	for {
		gs := sched.Snapshot()
		quiet := true
		for i, g := range gs {
			if i == 0 {
				continue
			}
			if !strings.Contains(g.Text, "github.com/pinealctx/neptune/") && !strings.Contains(g.Text, "nvharness/") {
				continue
			}
			switch g.State {
			case "select", "sync.Cond.Wait", "chan receive", "IO wait":
			default:
				quiet = false
			}
		}
		if quiet {
			lastSnap = gs
			return
		}
	}
}

func dbgDump() {
	for _, g := range lastSnap {
		fmt.Fprintln(os.Stderr, g.Text)
		fmt.Fprintln(os.Stderr)
	}
}
