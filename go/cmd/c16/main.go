// Command c16: extractor and correspondence runner for property C16 (stcp session: single exit,
// balanced count, flush before local close).
package main

import (
	"bufio"
	"bytes"
	"encoding/json"
	"fmt"
	"io"
	"os"
	"os/exec"
	"strconv"
	"strings"
	"sync"
	"time"

	"nvharness/lib/corr"
	_ "nvharness/lib/quiet"
	"nvharness/lib/rng"
)

func main() {
	if len(os.Args) < 2 {
		fmt.Fprintln(os.Stderr, "usage: c16 extract|corr …")
		os.Exit(2)
	}
	switch os.Args[1] {
	case "extract":
		extract(os.Args[2], os.Args[3])
	case "corr":
		corr.Main(spec(), os.Args[2:])
	case "worker":
		workerMain()
	default:
		os.Exit(2)
	}
}

// ---------------------------------------------------------------- running one script on the real code

var modes = map[string]bool{"pipe": true, "rt": true, "wt": true, "tcp": true, "pub": true, "publ": true, "pubx": true, "echo": true, "plog": true, "wlog": true}

func runCaseLocal(c corr.Case, emit func(i int, out string)) (res corr.Result) {
	var w *world
	defer func() {
		if w != nil {
			w.destroy()
		}
	}()
	for i, line := range c.Lines {
		out := func() (out string) {
			defer func() {
				if p := recover(); p != nil {
					out = fmt.Sprintf("panic:%v", p)
				}
			}()
			f := strings.Fields(line)
			if len(f) == 0 {
				return "bad-op"
			}
			if f[0] == "init" {
				if len(f) != 3 || !modes[f[2]] {
					return "bad-op"
				}
				m, err := strconv.Atoi(f[1])
				if err != nil || strconv.Itoa(m) != f[1] || m > 1<<20 || m < -(1<<20) {
					return "bad-op"
				}
				if w != nil {
					w.finish(&res)
					w.destroy()
				}
				w = newWorld(m, f[2])
				return "ok"
			}
			if w == nil {
				return "bad-op"
			}
			var r string
			if f[0] == "conn" {
				if len(f) != 1 {
					return "bad-op"
				}
				r = w.connect()
			} else if f[0] == "burst" {
				if len(f) != 2 {
					return "bad-op"
				}
				n, err := strconv.Atoi(f[1])
				if err != nil || strconv.Itoa(n) != f[1] || n < 1 || n > 8 {
					return "bad-op"
				}
				r = w.burst(n)
			} else if f[0] == "aerr" || f[0] == "afail" {
				if len(f) != 1 {
					return "bad-op"
				}
				if r = w.acceptError(f[0] == "afail"); r == "bad-op" {
					return r
				}
			} else if f[0] == "soak" {
				if len(f) != 2 {
					return "bad-op"
				}
				n, err := strconv.Atoi(f[1])
				if err != nil || n < 1 || n > 200000 || strconv.Itoa(n) != f[1] {
					return "bad-op"
				}
				if r = w.soak(n); r == "bad-op" {
					return r
				}
			} else if f[0] == "stress" {
				if len(f) != 3 {
					return "bad-op"
				}
				seed, err := strconv.Atoi(f[2])
				if err != nil || seed < 0 || strconv.Itoa(seed) != f[2] {
					return "bad-op"
				}
				r = w.stress(f[1], uint64(seed))
			} else {
				r = w.op(f)
				if r == "bad-op" {
					return r
				}
			}
			return "r=" + r + w.observe(i == len(c.Lines)-1)
		}()
		if w != nil && w.dead != "" {
			fmt.Fprintf(os.Stderr, "c16: harness failure in script %q line %d: %s\n", c.Lines, i, w.dead)
			os.Exit(exitHarness)
		}
		res.Outs = append(res.Outs, out)
		if emit != nil {
			emit(i, out)
		}
	}
	if w != nil {
		w.finish(&res)
	}
	return res
}

func (w *world) finish(res *corr.Result) {
	for _, h := range w.hits {
		res.Hits = append(res.Hits, corr.Hit{Key: h.key, What: h.what})
	}
	w.hits = nil
}

// ---------------------------------------------------------------- process isolation
//
// Every script runs in a worker child process (`c16 worker`, one per corr process, reused): a panic that escapes a
// goroutine of the code under test kills the process it runs in, and that must become a result line and a monitor
// hit with a replay, not a harness error. The worker streams one output line per script line, so what was observed
// before the crash is kept.

const exitHarness = 3

type wmsg struct {
	I    int        `json:"i"`
	Out  string     `json:"out,omitempty"`
	Done bool       `json:"done,omitempty"`
	Quit bool       `json:"quit,omitempty"` // the worker is no longer usable (a goroutine of the code under test spins)
	Hits []corr.Hit `json:"hits,omitempty"`
}

func workerMain() {
	in := bufio.NewReaderSize(os.Stdin, 1<<20)
	out := bufio.NewWriter(os.Stdout)
	enc := json.NewEncoder(out)
	for {
		line, err := in.ReadBytes('\n')
		if len(line) > 0 {
			var lines []string
			if json.Unmarshal(line, &lines) != nil {
				os.Exit(exitHarness)
			}
			res := runCaseLocal(corr.Case{Lines: lines}, func(i int, o string) {
				_ = enc.Encode(wmsg{I: i, Out: o})
				_ = out.Flush()
			})
			_ = enc.Encode(wmsg{Done: true, Hits: res.Hits, Quit: spinTotal > 0})
			_ = out.Flush()
			if spinTotal > 0 {
				os.Exit(0)
			}
		}
		if err != nil {
			return
		}
	}
}

type worker struct {
	cmd    *exec.Cmd
	stdin  io.WriteCloser
	stdout *bufio.Reader
	stderr *bytes.Buffer
	lines  chan wline
}

var (
	wkMu      sync.Mutex
	wk        *worker
	spinsSeen int // workers given up because a loop of the code under test never parked
)

// one script line must be answered within this time (the longest legitimate line is a stress scenario, a few seconds)
const lineTimeout = 90 * time.Second

type wline struct {
	b   []byte
	err error
}

func (w *worker) readLine(d time.Duration) ([]byte, error, bool) {
	select {
	case l := <-w.lines:
		return l.b, l.err, false
	case <-time.After(d):
		return nil, nil, true
	}
}

func startWorker() (*worker, error) {
	cmd := exec.Command(os.Args[0], "worker")
	cmd.Env = append(os.Environ(), "C16_SPINS="+strconv.Itoa(spinsSeen))
	stdin, err := cmd.StdinPipe()
	if err != nil {
		return nil, err
	}
	stdout, err := cmd.StdoutPipe()
	if err != nil {
		return nil, err
	}
	w := &worker{cmd: cmd, stdin: stdin, stdout: bufio.NewReaderSize(stdout, 1<<20), stderr: &bytes.Buffer{}}
	cmd.Stderr = w.stderr
	if err := cmd.Start(); err != nil {
		return nil, err
	}
	w.lines = make(chan wline, 64)
	go func() {
		for {
			b, err := w.stdout.ReadBytes('\n')
			w.lines <- wline{b, err}
			if err != nil {
				return
			}
		}
	}()
	return w, nil
}

func runCase(c corr.Case) (res corr.Result) {
	if os.Getenv("C16_SLOW") != "" {
		t0 := time.Now()
		defer func() {
			if d := time.Since(t0); d > 2*time.Second {
				fmt.Fprintf(os.Stderr, "c16: slow case %.1fs [%s] %q\n", d.Seconds(), c.Tag, c.Lines)
			}
		}()
	}
	if os.Getenv("C16_INPROCESS") != "" {
		return runCaseLocal(c, nil)
	}
	wkMu.Lock()
	defer wkMu.Unlock()
	var err error
	if wk == nil {
		if wk, err = startWorker(); err != nil {
			fmt.Fprintln(os.Stderr, "c16: cannot start worker:", err)
			os.Exit(2)
		}
	}
	req, _ := json.Marshal(c.Lines)
	_, _ = wk.stdin.Write(append(req, '\n'))
	for {
		line, rerr, timedOut := wk.readLine(lineTimeout)
		if timedOut {
			// no answer: the harness goroutine of the worker (or all of it) hangs inside the code under test. That is a
			// finding about the script, never a reason to hang or die here.
			_ = wk.cmd.Process.Kill()
			_ = wk.stdin.Close()
			_ = wk.cmd.Wait()
			wk = nil
			at := len(res.Outs)
			for len(res.Outs) < len(c.Lines) {
				res.Outs = append(res.Outs, "hang:no-answer")
			}
			res.Hits = append(res.Hits, corr.Hit{Key: "C16:api:call-never-returns", What: fmt.Sprintf(
				"no result for script line %d (%s) within %v: the call into the code under test never returned", at, c.Lines[at%len(c.Lines)], lineTimeout)})
			return res
		}
		var m wmsg
		if rerr == nil && json.Unmarshal(line, &m) == nil {
			if m.Done {
				res.Hits = m.Hits
				if m.Quit {
					spinsSeen++
					_ = wk.stdin.Close()
					_ = wk.cmd.Wait()
					wk = nil
				}
				return res
			}
			res.Outs = append(res.Outs, m.Out)
			continue
		}
		// the worker died
		_ = wk.stdin.Close()
		werr := wk.cmd.Wait()
		msg := wk.stderr.String()
		wk = nil
		if ee, ok := werr.(*exec.ExitError); ok && ee.ExitCode() == exitHarness {
			fmt.Fprint(os.Stderr, msg)
			os.Exit(2)
		}
		if !strings.Contains(msg, "panic:") && !strings.Contains(msg, "fatal error:") {
			fmt.Fprintf(os.Stderr, "c16: worker died without a Go panic (%v): %s\n", werr, msg)
			os.Exit(2)
		}
		what := msg
		if i := strings.Index(what, "\n\n"); i > 0 {
			what = what[:i]
		}
		if len(what) > 600 {
			what = what[:600]
		}
		crashedAt := len(res.Outs)
		for len(res.Outs) < len(c.Lines) {
			res.Outs = append(res.Outs, "crash:process-died")
		}
		for _, l := range c.Lines {
			if strings.HasPrefix(l, "xpanic ") {
				// the exit callback was made to panic on purpose (outside the property's assumptions): whether that
				// panic is recovered depends on the order of the two defers, which the property does not fix
				return res
			}
		}
		key := "C16:process:panic-escapes-goroutine"
		if strings.Contains(msg, "c16-handler-panic") || strings.Contains(msg, "loopReceive") {
			key = "C16:loopReceive:handler-panic-escapes"
		}
		res.Hits = append(res.Hits, corr.Hit{Key: key, What: fmt.Sprintf("the process died at script line %d (%s): %s", crashedAt,
			c.Lines[crashedAt%len(c.Lines)], strings.ReplaceAll(what, "\n", " | "))})
		return res
	}
}

// ---------------------------------------------------------------- generators

// terminating events of the property (pipe mode)
var killers = []string{"close", "pclose", "rerr", "rto", "herr", "rdl", "hpanic", "hpanicnil", "werr", "wto", "wdl"}

func payload(r *rng.R) string {
	n := r.PickInt(1, 1, 2, 3, 5)
	var sb strings.Builder
	for i := 0; i < n; i++ {
		fmt.Fprintf(&sb, "%02x", r.Intn(256))
	}
	return sb.String()
}

func mk(tag string, lines ...string) corr.Case { return corr.Case{Tag: tag, Lines: lines} }

func fixedCases() []corr.Case {
	var out []corr.Case
	// witnesses
	out = append(out,
		// the replay of the empty-send defect repaired by 2279fa4 (Lean: witness_emptySend_quits); passes since the fix
		mk("witness", "init 1 pipe", "conn", "hold 0", "send 0 6161", "send 0 -", "send 0 6262", "close 0", "drain 0"),
		// the scripts of the mutation witnesses of Props/C16 (the property holds on them on the unchanged tree)
		mk("witness", "init 1 pipe", "conn", "hold 0", "send 0 01", "send 0 02", "close 0", "drain 0"),
		mk("witness", "init 1 pipe", "conn", "close 0"),
		mk("witness", "init 1 pipe", "conn", "conn", "conn"),
		mk("witness", "init 1 pipe", "conn", "hpanic 0", "conn"),
		mk("witness", "init 0 pipe", "conn"),
		mk("witness", "init -1 pipe", "conn"),
		mk("witness", "init 2 pipe", "conn", "start 0", "conn", "conn", "close 0", "conn"),
	)
	// every terminating event alone and every ordered pair, with nothing queued and with a blocked write + a queued item
	for _, a := range killers {
		out = append(out, mk("single", "init 2 pipe", "conn", "pdata 0", "send 0 aa", a+" 0", "send 0 bb", "conn", "conn"))
		out = append(out, mk("single-blocked", "init 2 pipe", "conn", "hold 0", "send 0 aa", "send 0 bbcc", a+" 0", "drain 0", "conn"))
		for _, b := range killers {
			out = append(out, mk("pair", "init 1 pipe", "conn", "send 0 0102", a+" 0", b+" 0", "conn"))
			out = append(out, mk("pair-blocked", "init 1 pipe", "conn", "hold 0", "send 0 0102", "send 0 03", a+" 0", b+" 0", "drain 0", "conn"))
		}
	}
	// flush: 0..5 queued sends behind a blocked write, then local Close, then the peer reads
	for n := 0; n <= 5; n++ {
		ls := []string{"init 1 pipe", "conn", "hold 0"}
		for i := 0; i <= n; i++ {
			ls = append(ls, fmt.Sprintf("send 0 %02x%02x", 16+i, 32+i))
		}
		ls = append(ls, "close 0", "send 0 ff", "drain 0")
		out = append(out, mk("flush", ls...))
	}
	// accept loop: 1..4 connection attempts against maxConn 0..3, then one slot freed
	for max := 0; max <= 3; max++ {
		for n := 1; n <= 4; n++ {
			ls := []string{"init " + strconv.Itoa(max) + " pipe"}
			for i := 0; i < n; i++ {
				ls = append(ls, "conn")
			}
			ls = append(ls, "pclose 0", "conn", "conn")
			out = append(out, mk("accept", ls...))
		}
	}
	// bursts of connection attempts (no observation in between) against maxConn 0..3, with a slot freed in between
	for max := 0; max <= 3; max++ {
		for _, n := range []int{2, 4, 8} {
			m := strconv.Itoa(max)
			out = append(out, mk("burst", "init "+m+" pipe", "burst "+strconv.Itoa(n), "pclose 0", "burst 3", "conn"))
			out = append(out, mk("burst", "init "+m+" tcp", "burst "+strconv.Itoa(n), "conn"))
		}
	}
	// a connection whose Close reports an error, ended by each terminating event
	for _, a := range killers {
		out = append(out, mk("close-error", "init 1 pipe", "conn", "cerr 0", "send 0 aa", a+" 0", "send 0 bb", "drain 0", "conn"))
	}
	// the real public path (constructor, Start/LoopStart, startListen, option plumbing) with the DEFAULT manager:
	// WithMaxConn 1..3 must be honoured, bytes queued before a local Close must arrive under the default write timeout
	for max := 1; max <= 3; max++ {
		m := strconv.Itoa(max)
		for _, mode := range []string{"pub", "publ"} {
			out = append(out, mk(mode, "init "+m+" "+mode, "burst 5", "send 0 68656c6c6f", "send 0 20776f726c64", "close 0", "conn", "pclose 0", "conn"))
			out = append(out, mk(mode, "init "+m+" "+mode, "conn", "conn", "conn", "conn", "hpanic 0", "conn", "uh 0", "pdata 0", "herr 0"))
		}
		out = append(out, mk("pubx", "init "+m+" pubx", "burst 4", "conn"))
	}
	// Echo sessions behind the accept loop: count <= max, count returns when the handler releases it
	for max := 0; max <= 3; max++ {
		m := strconv.Itoa(max)
		out = append(out, mk("echo", "init "+m+" echo", "burst 5", "start 0", "pdata 0", "herr 0", "conn", "pclose 0", "burst 3"))
		out = append(out, mk("echo", "init "+m+" echo", "conn", "start 0", "start 0", "conn", "conn", "conn", "pclose 0", "conn"))
	}
	// UpdateHandler: both `s.rh != nil` branches, every killer after the handler was replaced (twice)
	for _, a := range killers {
		out = append(out, mk("update-handler", "init 1 pipe", "conn", "uh 0", "pdata 0", "uh 0", "pdata 0", "send 0 aa", a+" 0", "drain 0", "conn"))
	}
	// a value attached to the session (Session.Set → absSessionInfo in every log line), before every ender
	for _, v := range []string{"str", "kz", "nilkz"} {
		for _, a := range killers {
			out = append(out, mk("session-value", "init 1 pipe", "conn", "setv 0 "+v, "pdata 0", "send 0 aa", a+" 0", "drain 0", "conn"))
		}
		out = append(out, mk("session-value", "init 1 pub", "conn", "setv 0 "+v, "send 0 6869", "close 0", "conn", "setv 1 "+v, "hpanic 1"))
	}
	// a user-made logger: installed as the default one (plog) or handed to the server with WithLogger (wlog)
	for _, mode := range []string{"plog", "wlog"} {
		for _, a := range killers {
			out = append(out, mk("custom-logger", "init 1 "+mode, "conn", "conn", "send 0 aa", a+" 0", "drain 0", "conn"))
		}
		out = append(out, mk("custom-logger", "init 2 "+mode, "burst 4", "cerr 0", "hpanic 0", "aerr", "conn", "setv 1 str", "close 1"))
	}
	// a long history of error-level log lines (one per surplus connection) before an ender that logs again
	out = append(out,
		mk("soak", "init 1 pipe", "conn", "soak 70000", "hpanic 0", "conn", "soak 10", "pclose 1"),
		mk("soak", "init 0 pipe", "soak 1000", "conn"),
		mk("soak", "init 2 echo", "burst 2", "soak 500", "herr 0", "conn"),
	)
	// many sessions of one manager started and ended in parallel
	for seed := 1; seed <= 4; seed++ {
		out = append(out, mk("stress", "init 1 pipe", "stress par "+strconv.Itoa(seed)))
	}
	// Accept errors: temporary ones are retried (three in a row stop the loop), a permanent one stops it
	out = append(out,
		mk("accept-error", "init 2 pipe", "conn", "aerr", "conn", "aerr", "aerr", "conn", "pclose 0", "conn"),
		mk("accept-error", "init 2 pipe", "aerr", "aerr", "aerr", "conn", "burst 2", "aerr"),
		mk("accept-error", "init 2 pipe", "conn", "afail", "conn", "burst 3", "close 0", "afail"),
		mk("accept-error", "init 1 echo", "aerr", "conn", "afail", "conn", "pclose 0"),
	)
	// negative maxConn: nothing may be admitted
	out = append(out, mk("accept", "init -1 pipe", "burst 3", "conn"), mk("accept", "init -2 echo", "burst 2"), mk("accept", "init -1 pub", "conn", "conn"))
	// the environment assumption broken on purpose (validates the model's account of a panicking / blocking OnExit)
	for _, a := range killers {
		out = append(out, mk("onexit-assumption", "init 1 pipe", "conn", "xpanic 0", "send 0 aa", a+" 0", "drain 0", "conn", "close 0", "pclose 0"))
		out = append(out, mk("onexit-assumption", "init 1 pipe", "conn", "xblock 0", "hold 0", "send 0 aa", a+" 0", "drain 0", "conn", "close 0", "pclose 0"))
	}
	// concurrent Close / Send / peer close, and megabyte payloads to a slow reader over the public path
	for seed := 1; seed <= 6; seed++ {
		out = append(out, mk("stress", "init 1 pipe", "stress race "+strconv.Itoa(seed)))
	}
	out = append(out, mk("stress", "init 1 pipe", "stress big 1"), mk("stress", "init 1 pipe", "stress big 2"))
	// backlog: a session that has already sent some packets (the queue's head has moved), then 17..300 Sends queued
	// behind a stalled peer, a local Close, and the peer reads again: every byte must arrive, in order
	for _, pre := range []int{0, 1, 3, 9, 15} {
		for _, n := range []int{15, 16, 17, 18, 33, 70, 300} {
			ls := []string{"init 1 pipe", "conn"}
			if pre > 0 {
				ls = append(ls, "sendn 0 "+strconv.Itoa(pre))
			}
			ls = append(ls, "hold 0", "sendn 0 "+strconv.Itoa(n), "close 0", "drain 0", "conn")
			out = append(out, mk("backlog", ls...))
		}
	}
	out = append(out, mk("backlog", "init 1 pub", "conn", "sendn 0 5", "sendn 0 40", "send 0 6869", "close 0", "conn"))
	// partial write, then a write timeout / another temporary error — once; later Writes would succeed: the session
	// must end and must not write anything again (the peer's bytes stay a prefix of the accepted sends)
	for _, op := range []string{"wpart", "wtemp"} {
		for _, n := range []string{"0", "1", "2", "9"} {
			out = append(out, mk("partial-write", "init 1 pipe", "conn", "send 0 09", op+" 0 "+n, "send 0 01020304", "send 0 05", "conn"))
			out = append(out, mk("partial-write", "init 1 pipe", "conn", "hold 0", "send 0 aabbcc", "send 0 dd", op+" 0 "+n, "drain 0", "send 0 ee", "conn"))
			out = append(out, mk("partial-write", "init 2 pipe", "conn", "hold 0", "send 0 aabbcc", "drain 0", op+" 0 "+n, "hold 0", "send 0 0102", "close 0", "drain 0"))
		}
	}
	// real timeouts (read 60 ms, write 250 ms) and loopback TCP
	out = append(out,
		mk("real-timeout", "init 2 rt", "conn", "conn", "send 0 aa", "conn"),
		mk("real-timeout", "init 1 wt", "conn", "send 0 aa", "hold 0", "send 0 bb", "send 0 cc", "conn"),
		mk("tcp", "init 2 tcp", "conn", "conn", "conn", "send 0 6869", "pdata 0", "close 0", "conn", "pclose 1", "conn"),
		mk("tcp", "init 1 tcp", "conn", "send 0 01", "send 0 0203", "hpanic 0", "conn", "herr 1", "conn", "hpanicnil 2"),
	)
	// malformed lines
	out = append(out,
		mk("malformed", "init 1 pipe", "conn", "send 0", "send 0 zz", "send 0 abc", "close 7", "close", "frob 0", "init 1", "init x pipe", "init 1 udp", "conn 0", "send -1 aa", ""),
	)
	return out
}

func genCase(r *rng.R, tier string, i int) corr.Case {
	wide := tier != "quick"
	switch {
	case r.Chance(1, 60):
		return genSlow(r)
	case r.Chance(1, 25):
		return genTCP(r, "tcp")
	case r.Chance(1, 25):
		return genTCP(r, r.Pick("pub", "pub", "publ"))
	case r.Chance(1, 120):
		return genPubx(r)
	case r.Chance(1, 30):
		return genEcho(r)
	case r.Chance(1, 60):
		return genOnExit(r)
	case r.Chance(1, 150):
		return corr.Case{Tag: "stress", Lines: []string{"init 1 pipe", "stress " + r.Pick("race", "race", "race", "big", "par") + " " + strconv.Itoa(r.Intn(1<<20))}}
	case r.Chance(1, 25):
		return genMalformed(r)
	}
	max := r.PickInt(0, 1, 1, 2, 2, 3)
	if r.Chance(1, 40) {
		max = -1
	}
	lines := []string{"init " + strconv.Itoa(max) + " " + r.Pick("pipe", "pipe", "pipe", "pipe", "pipe", "pipe", "pipe", "pipe", "plog", "wlog")}
	nsess := 0
	alive := map[int]bool{}
	nops := r.Range(4, 14)
	if wide {
		nops = r.Range(4, 24)
	}
	count := 0
	conn := func() {
		lines = append(lines, "conn")
		if count < max {
			alive[nsess] = true
			nsess++
			count++
		}
	}
	conn()
	for j := 0; j < nops; j++ {
		if nsess == 0 || r.Chance(1, 5) {
			if r.Chance(1, 4) {
				nb := r.Range(2, 5)
				lines = append(lines, "burst "+strconv.Itoa(nb))
				for b := 0; b < nb; b++ {
					if count < max {
						alive[nsess] = true
						nsess++
						count++
					}
				}
				continue
			}
			conn()
			continue
		}
		k := r.Intn(nsess)
		ks := strconv.Itoa(k)
		if r.Chance(1, 30) {
			lines = append(lines, "cerr "+ks)
			continue
		}
		if r.Chance(1, 25) {
			lines = append(lines, "uh "+ks)
			continue
		}
		if r.Chance(1, 20) {
			lines = append(lines, "setv "+ks+" "+r.Pick("str", "kz", "nilkz"))
			continue
		}
		if r.Chance(1, 15) {
			lines = append(lines, "sendn "+ks+" "+strconv.Itoa(r.PickInt(2, 5, 16, 17, 20, 40, 64, 65, 130)))
			continue
		}
		if count >= max && r.Chance(1, 40) {
			lines = append(lines, "soak "+strconv.Itoa(r.Range(1, 300)))
			continue
		}
		if r.Chance(1, 14) {
			lines = append(lines, r.Pick("wpart", "wtemp")+" "+ks+" "+strconv.Itoa(r.Intn(4)))
			if r.Bool() {
				lines = append(lines, "send "+ks+" "+payload(r))
			}
			continue
		}
		if r.Chance(1, 60) {
			lines = append(lines, "aerr") // one temporary Accept error: the loop backs off and goes on
			conn()
			continue
		}
		switch x := r.Intn(20); {
		case x < 6:
			if r.Chance(1, 12) {
				lines = append(lines, "send "+ks+" -")
			} else {
				lines = append(lines, "send "+ks+" "+payload(r))
			}
		case x < 8:
			lines = append(lines, "hold "+ks)
		case x < 10:
			lines = append(lines, "drain "+ks)
		case x < 12:
			lines = append(lines, "pdata "+ks)
		case x < 13:
			lines = append(lines, "start "+ks)
		case x < 15:
			lines = append(lines, "close "+ks)
		default:
			lines = append(lines, r.Pick(killers...)+" "+ks)
			if alive[k] {
				alive[k] = false
				count--
			}
		}
	}
	// let every blocked write finish so that the script ends in a state the flush monitor can judge
	for k := 0; k < nsess; k++ {
		if r.Chance(3, 4) {
			lines = append(lines, "drain "+strconv.Itoa(k))
		}
	}
	return corr.Case{Tag: "random", Lines: lines}
}

func genSlow(r *rng.R) corr.Case {
	if r.Bool() {
		ls := []string{"init " + strconv.Itoa(r.Range(1, 2)) + " rt", "conn"}
		for j := r.Intn(3); j > 0; j-- {
			ls = append(ls, r.Pick("conn", "send 0 "+payload(r), "close 0", "pdata 0"))
		}
		return corr.Case{Tag: "real-read-timeout", Lines: ls}
	}
	ls := []string{"init 1 wt", "conn", "send 0 " + payload(r), "hold 0", "send 0 " + payload(r)}
	ls = append(ls, r.Pick("send 0 "+payload(r), "close 0", "drain 0"), "conn")
	return corr.Case{Tag: "real-write-timeout", Lines: ls}
}

// genTCP: loopback TCP, either behind the hook (mode tcp) or through the real public path with the default manager
// (modes pub: NewTCPSrv+Start, publ: NewTCPSrv+LoopStart)
func genTCP(r *rng.R, mode string) corr.Case {
	max := r.Range(1, 3)
	ls := []string{"init " + strconv.Itoa(max) + " " + mode, "conn"}
	nsess, count := 0, 0
	if max >= 1 {
		nsess, count = 1, 1
	}
	alive := map[int]bool{0: true}
	for j := r.Range(3, 8); j > 0; j-- {
		if nsess == 0 || r.Chance(1, 4) {
			if r.Chance(1, 3) {
				nb := r.Range(2, 4)
				ls = append(ls, "burst "+strconv.Itoa(nb))
				for b := 0; b < nb; b++ {
					if count < max {
						alive[nsess] = true
						nsess++
						count++
					}
				}
				continue
			}
			ls = append(ls, "conn")
			if count < max {
				alive[nsess] = true
				nsess++
				count++
			}
			continue
		}
		k := r.Intn(nsess)
		ks := strconv.Itoa(k)
		op := r.Pick("send", "send", "pdata", "close", "pclose", "herr", "hpanic", "hpanicnil", "start", "uh")
		switch op {
		case "send":
			ls = append(ls, "send "+ks+" "+payload(r))
		case "pdata", "start", "uh":
			ls = append(ls, op+" "+ks)
		default:
			ls = append(ls, op+" "+ks)
			if alive[k] {
				alive[k] = false
				count--
			}
		}
	}
	return corr.Case{Tag: mode, Lines: ls}
}

// genPubx: NewTCPSrvX with a 60 ms read timeout passed through its manager options: every session ends by itself
func genPubx(r *rng.R) corr.Case {
	ls := []string{"init " + strconv.Itoa(r.Range(1, 2)) + " pubx"}
	for j := r.Range(1, 3); j > 0; j-- {
		ls = append(ls, r.Pick("conn", "conn", "burst 2", "send 0 "+payload(r)))
	}
	if ls[1][0] == 's' {
		ls[1] = "conn"
	}
	return corr.Case{Tag: "pubx", Lines: ls}
}

// genEcho: Echo sessions (echo.go) behind the same accept loop
func genEcho(r *rng.R) corr.Case {
	max := r.Range(0, 3)
	ls := []string{"init " + strconv.Itoa(max) + " echo", "conn"}
	nsess, count := 0, 0
	if max >= 1 {
		nsess, count = 1, 1
	}
	alive := map[int]bool{0: true}
	for j := r.Range(3, 10); j > 0; j-- {
		if nsess == 0 || r.Chance(1, 3) {
			nb := 1
			if r.Chance(1, 3) {
				nb = r.Range(2, 5)
				ls = append(ls, "burst "+strconv.Itoa(nb))
			} else if r.Chance(1, 8) {
				ls = append(ls, "aerr")
				continue
			} else {
				ls = append(ls, "conn")
			}
			for b := 0; b < nb; b++ {
				if count < max {
					alive[nsess] = true
					nsess++
					count++
				}
			}
			continue
		}
		k := r.Intn(nsess)
		op := r.Pick("pdata", "pdata", "start", "herr", "pclose")
		ls = append(ls, op+" "+strconv.Itoa(k))
		if (op == "herr" || op == "pclose") && alive[k] {
			alive[k] = false
			count--
		}
	}
	return corr.Case{Tag: "echo", Lines: ls}
}

// genOnExit: the environment assumption broken on purpose (OnExit panics / never returns): the oracle follows the
// model's account of the leak; the property monitors stand down for these worlds
func genOnExit(r *rng.R) corr.Case {
	ls := []string{"init 2 pipe", "conn", r.Pick("xpanic", "xblock") + " 0"}
	if r.Bool() {
		ls = append(ls, "send 0 "+payload(r))
	}
	ls = append(ls, r.Pick(killers...)+" 0", "send 0 "+payload(r), "conn", r.Pick("close", "pclose", "drain")+" 0", "conn")
	return corr.Case{Tag: "onexit-assumption", Lines: ls}
}

func genMalformed(r *rng.R) corr.Case {
	ls := []string{"init 1 pipe", "conn"}
	bad := []string{"sendn 0", "sendn 0 0", "sendn 0 x", "setv 0", "setv 0 zz", "soak", "soak 0", "soak x", "wpart 0", "wpart 0 x", "wtemp 0 -1", "aerr 0", "stress", "stress race", "stress race x", "uh", "xpanic", "init 1 pubz", "burst 0", "burst 9", "burst", "burst x", "cerr", "send 0", "send 0 0", "send 0 0g", "send 0 AA", "close 1", "close", "pclose x", "conn 1", "frob 0", "init", "init 1", "init 1 foo", "hold", "send 5 aa", "rerr -1", "wto 0 0"}
	for j := r.Range(2, 6); j > 0; j-- {
		if r.Chance(1, 3) {
			ls = append(ls, r.Pick("send 0 aa", "pdata 0", "conn"))
		} else {
			ls = append(ls, r.Pick(bad...))
		}
	}
	return corr.Case{Tag: "malformed", Lines: ls}
}

// firstDiff names the first observable in which two result lines differ.
func firstDiff(want, got string) string {
	if strings.HasPrefix(got, "crash") || strings.HasPrefix(want, "crash") {
		return "crash"
	}
	if got == "bad-op" || want == "bad-op" {
		return "bad-op"
	}
	split := func(l string) []string {
		return strings.FieldsFunc(l, func(r rune) bool { return r == ' ' || r == ',' || r == '/' || r == '{' || r == '}' || r == '|' })
	}
	a, b := split(want), split(got)
	for i := 0; i < len(a) && i < len(b); i++ {
		if a[i] == b[i] {
			continue
		}
		t := b[i]
		if j := strings.Index(t, ":"); j >= 0 && j < 3 {
			t = t[j+1:]
		}
		k := 0
		for k < len(t) && t[k] >= 'a' && t[k] <= 'z' {
			k++
		}
		if k == 0 {
			return "line"
		}
		return t[:k]
	}
	return "sessions"
}

func spec() corr.Spec {
	return corr.Spec{
		Property: "C16",
		Fixed:    fixedCases,
		Count: func(tier string) int {
			switch tier {
			case "quick":
				return 5000
			case "thorough":
				return 150000
			}
			return 40000 // S7 after a broken tie must stay well under two minutes
		},
		Shards: func(tier string) int {
			if tier == "quick" {
				return 8
			}
			return 14
		},
		Gen: genCase,
		Run: runCase,
		// one key per observable that differs (not per op): r | n | rej | x | c | l | d | rd | crash
		Classify: func(c corr.Case, line int, want, got string) string {
			return "C16:corr:" + firstDiff(want, got)
		},
		NonTrivial: func(c corr.Case, r corr.Result) bool {
			// at least one session was started and something happened to it
			acc, act := false, false
			for i, o := range r.Outs {
				if strings.HasPrefix(o, "r=acc") && !strings.HasPrefix(o, "r=acc0,") {
					acc = true
				}
				f := strings.Fields(c.Lines[i])
				if len(f) > 0 && f[0] != "init" && f[0] != "conn" && f[0] != "burst" && o != "bad-op" {
					act = true
				}
			}
			return acc && act
		},
		Rule: "scripts of connection attempts (single and in bursts of 2..8 without observation in between) against maxConn -1..3 and, per session, Send (incl. zero-length; backlogs of up to 300 queued items on a queue whose head has moved), local Close, peer close, peer reading/not reading, handler data/error/panic/panic(nil), injected read/write errors, forced and real (60 ms read / 250 ms write) timeouts, failing Set*Deadline, a partial write followed by a timeout / temporary error, a failing conn.Close, repeated Start, a value attached with Set (plain, IKeyZap, typed nil), a user-made logger (default / WithLogger), long runs of surplus connections; every terminating event alone and in every ordered pair, with and without a blocked write and queued items; 0..5 queued sends before a local Close; sessions over net.Pipe through the real accept loop and over loopback TCP; a case is non-trivial when a session was started and at least one operation was applied to it; distinct = distinct script text",
		Assumptions: []string{
			"net.Conn behaviour is assumed at the transition level: closing a connection (or the peer closing) makes the blocked Read/Write of the other loop return an error; a Write to a peer that does not read blocks; deadlines fire (checked on net.Pipe and loopback TCP by the correspondence, not proved)",
			"sync.Once, sync.Cond, atomic.Int32 behave as documented; the Go scheduler eventually runs a runnable goroutine",
			"the handler's OnExit returns normally and its Read blocks only in the connection read (a panic inside OnExit leaves the count and the other loop behind; outside the property's event list)",
			"count overflow of int32 is not modelled",
		},
		Trusted: []string{
			"stcp hook VerifServe (runs the unchanged loopAccept on a caller-supplied listener)",
			"syncx/pipe/q.Q modelled (AddReq/PopAnyway/Pop/Close), validated by correspondence and shape facts",
			"goroutine presence read from runtime.Stack snapshots (lib/sched)",
		},
	}
}
