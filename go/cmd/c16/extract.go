package main

import (
	"fmt"
	"go/ast"
	"os"
	"path/filepath"
	"regexp"
	"strings"

	"nvharness/lib/gofacts"
)

// ---------------------------------------------------------------- extract
//
// Facts are read from the normalised source text of the declarations, after removing statements that only log
// (calls rooted at `….Logger()` or `s.loggerSendReadErr`): a log line is not part of the behaviour modelled.

func isLogCall(f *gofacts.File, e ast.Expr) bool {
	call, ok := e.(*ast.CallExpr)
	if !ok {
		return false
	}
	src := f.Src(call)
	return strings.HasPrefix(src, "s.b.Logger().") || strings.HasPrefix(src, "cnf.Logger().") ||
		strings.HasPrefix(src, "s.loggerSendReadErr(") || strings.HasPrefix(src, "s.Logger().")
}

// stripLogs removes pure logging statements from a block, recursively (in place on the parsed copy).
func stripLogs(f *gofacts.File, n ast.Node) {
	ast.Inspect(n, func(x ast.Node) bool {
		blk, ok := x.(*ast.BlockStmt)
		if !ok {
			return true
		}
		var keep []ast.Stmt
		for _, st := range blk.List {
			if es, ok := st.(*ast.ExprStmt); ok && isLogCall(f, es.X) {
				continue
			}
			keep = append(keep, st)
		}
		blk.List = keep
		return true
	})
}

func classifyDefers(ds []string) string {
	switch strings.Join(ds, ";") {
	case "s.recovery();s.quit()":
		return "recoveryQuit"
	case "s.quit();s.recovery()":
		return "quitRecovery"
	case "s.quit()":
		return "quitOnly"
	case "s.recovery()":
		return "recoveryOnly"
	case "":
		return "none"
	}
	return "unknown"
}

// body of a function without its top-level defer statements
func bodyNoDefers(f *gofacts.File, fd *ast.FuncDecl) string {
	if fd == nil || fd.Body == nil {
		return ""
	}
	var parts []string
	for _, st := range fd.Body.List {
		if _, ok := st.(*ast.DeferStmt); ok {
			continue
		}
		if ds, ok := st.(*ast.DeclStmt); ok {
			_ = ds
			continue // local variable declarations carry no behaviour
		}
		parts = append(parts, f.Src(st))
	}
	return strings.Join(parts, " ")
}

type extracted struct {
	sendPop, emptySend, sendDefers, recvDefers, acceptCmp    string
	quitOnce, quitOnExit, quitDec, quitCloseQ, quitCloseConn bool
	startIncOnce, sendEnqueues, closeClosesQueue             bool
	sendLoopShape, recvLoopShape, sendSetsDeadline           bool
	doStartsSession, acceptShape, queueShape                 bool
	quitShape, recoveryShape                                 bool
}

func doExtract(repo string) extracted {
	var x extracted
	sess := gofacts.MustLoad(repo, "stcp/sess.go")
	mgr := gofacts.MustLoad(repo, "stcp/sessmgr.go")
	srv := gofacts.MustLoad(repo, "stcp/srv.go")
	qf := gofacts.MustLoad(repo, "syncx/pipe/q/q.go")
	for _, f := range []*gofacts.File{sess, mgr, srv, qf} {
		stripLogs(f, f.AST)
	}

	// --- Start / Send / Close
	x.startIncOnce = sess.Body("Session", "Start") == gofacts.Norm("{ s.startOnce.Do(func() { s.b.count.Inc() go s.loopSend() go s.loopReceive() }) }")
	x.sendEnqueues = sess.Body("Session", "Send") == gofacts.Norm("{ return s.sendQ.AddReq(bs) }")
	x.closeClosesQueue = sess.Body("Session", "Close") == gofacts.Norm("{ s.sendQ.Close() }")

	// --- loopSend
	ls := sess.Func("Session", "loopSend")
	x.sendDefers = classifyDefers(sess.Defers(ls))
	lsBody := bodyNoDefers(sess, ls)
	x.sendPop = "unknown"
	popCall := ""
	switch {
	case gofacts.Has(lsBody, "qItem, err = s.sendQ.PopAnyway()"):
		x.sendPop, popCall = "popAnyway", "s.sendQ.PopAnyway()"
	case gofacts.Has(lsBody, "qItem, err = s.sendQ.Pop()"):
		x.sendPop, popCall = "pop", "s.sendQ.Pop()"
	}
	x.emptySend = "unknown"
	check := ""
	switch {
	case gofacts.Has(lsBody, "bs, ok = qItem.([]byte) if !ok || len(bs) == 0 { return }"):
		x.emptySend, check = "quits", "if !ok || len(bs) == 0 { return }"
	case gofacts.Has(lsBody, "bs, ok = qItem.([]byte) if !ok { return } if len(bs) == 0 { continue }"):
		x.emptySend, check = "skips", "if !ok { return } if len(bs) == 0 { continue }"
	}
	x.sendLoopShape = popCall != "" && check != "" && lsBody == gofacts.Norm(
		"for { qItem, err = "+popCall+" if err != nil { return } bs, ok = qItem.([]byte) "+check+" err = s.send(bs) if err != nil { return } }")

	// --- loopReceive
	lr := sess.Func("Session", "loopReceive")
	x.recvDefers = classifyDefers(sess.Defers(lr))
	x.recvLoopShape = bodyNoDefers(sess, lr) == gofacts.Norm(
		"for { var err = s.conn.SetReadDeadline(time.Now().Add(s.b.readTimeout)) if err != nil { return } "+
			"if s.rh != nil { err = s.rh.Read(s) } else { err = s.b.rh.Read(s) } if err != nil { return } }")

	// --- send
	x.sendSetsDeadline = sess.Body("Session", "send") == gofacts.Norm(
		"{ var err = s.conn.SetWriteDeadline(time.Now().Add(s.b.writeTimeout)) if err != nil { return err } _, err = s.conn.Write(buf) return err }")

	// --- recovery: the deferred function itself calls recover()
	x.recoveryShape = sess.Body("Session", "recovery") == gofacts.Norm("{ var r = recover() if r != nil { } }")

	// --- quit
	qd := sess.Func("Session", "quit")
	var stmts []ast.Stmt
	if qd != nil && qd.Body != nil {
		stmts = qd.Body.List
		if len(stmts) == 1 {
			if es, ok := stmts[0].(*ast.ExprStmt); ok {
				if call, ok := es.X.(*ast.CallExpr); ok && sess.Src(call.Fun) == "s.exitOnce.Do" && len(call.Args) == 1 {
					if fl, ok := call.Args[0].(*ast.FuncLit); ok {
						x.quitOnce = true
						stmts = fl.Body.List
					}
				}
			}
		}
	}
	x.quitShape = qd != nil
	for _, st := range stmts {
		switch sess.Src(st) {
		case gofacts.Norm("if s.rh != nil { s.rh.OnExit(s) } else { s.b.rh.OnExit(s) }"):
			x.quitOnExit = true
		case "s.b.count.Dec()":
			x.quitDec = true
		case "s.sendQ.Close()":
			x.quitCloseQ = true
		case gofacts.Norm("if s.conn != nil { var err = s.conn.Close() if err != nil { } }"),
			gofacts.Norm("if s.conn != nil { s.conn.Close() }"), "s.conn.Close()", "_ = s.conn.Close()":
			x.quitCloseConn = true
		default:
			x.quitShape = false // a statement the model does not know
		}
	}

	// --- manager
	x.doStartsSession = mgr.Body("SessionMgr", "Do") == gofacts.Norm("{ var session = NewSession(m, conn) session.Start() }") &&
		mgr.Body("SessionMgr", "ConnCount") == gofacts.Norm("{ return m.count.Load() }") &&
		sess.Body("", "NewSession") == gofacts.Norm("{ return &Session{ b: b, conn: conn, sendQ: q.NewQ(), } }")

	// --- accept loop
	la := srv.Body("Server", "loopAccept")
	x.acceptCmp = "unknown"
	if m := regexp.MustCompile(`if s\.ch\.ConnCount\(\) (\S+) cnf\.maxConn \{`).FindStringSubmatch(la); m != nil {
		switch m[1] {
		case ">=":
			x.acceptCmp = "ge"
		case ">":
			x.acceptCmp = "gt"
		}
	}
	cmpTok := map[string]string{"ge": ">=", "gt": ">"}[x.acceptCmp]
	x.acceptShape = cmpTok != "" && strings.HasSuffix(la, gofacts.Norm(
		"for { conn, err = s.ln.Accept() if err != nil { outErr = handleErr() if outErr != nil { return outErr } continue } "+
			"accDelay = 0 accRetryCount = 0 if s.ch.ConnCount() "+cmpTok+" cnf.maxConn { var e = conn.Close() } else { s.ch.Do(conn) } } }"))

	// --- queue
	x.queueShape = qf.Body("Q", "AddReq") == gofacts.Norm(
		"{ a.lock.Lock() defer a.lock.Unlock() if a.closed { return ErrClosed } if a.reqMaxNum > 0 { if a.reqList.Len() >= a.reqMaxNum { return ErrReqQFull } } a.reqList.PushBack(req) a.cond.Broadcast() return nil }") &&
		qf.Body("Q", "Close") == gofacts.Norm("{ a.lock.Lock() defer a.lock.Unlock() if a.closed { return } a.closed = true a.cond.Broadcast() }") &&
		qf.Body("Q", "PopAnyway") == gofacts.Norm("{ return a.pop(false) }") &&
		qf.Body("Q", "Pop") == gofacts.Norm("{ return a.pop(true) }") &&
		qf.Body("Q", "pop") == gofacts.Norm(
			"{ a.lock.Lock() defer a.lock.Unlock() for a.reqList.Len() == 0 { if a.closed { return nil, ErrClosed } a.cond.Wait() } "+
				"if checkClose { if a.closed { return nil, ErrClosed } } var front = a.reqList.Front() if front != nil { a.reqList.Remove(front) return front.Value, nil } return nil, ErrSync }")
	return x
}

func extract(repo, leanDir string) {
	x := doExtract(repo)
	b := gofacts.LeanBool
	out := fmt.Sprintf(`import Nv.Model.C16
/-! GENERATED by `+"`c16 extract`"+` from stcp/sess.go, stcp/sessmgr.go, stcp/srv.go, syncx/pipe/q/q.go — do not edit. -/
namespace Nv.Gen.C16
def cfg : Nv.C16.Cfg := ⟨.%s, .%s, %s, %s, %s, %s, %s, .%s, .%s, .%s⟩
def facts : Nv.C16.Facts := ⟨%s, %s, %s, %s, %s, %s, %s, %s, %s, %s, %s⟩
end Nv.Gen.C16
`, x.sendPop, x.emptySend, b(x.quitOnce), b(x.quitOnExit), b(x.quitDec), b(x.quitCloseQ), b(x.quitCloseConn),
		x.sendDefers, x.recvDefers, x.acceptCmp,
		b(x.startIncOnce), b(x.sendEnqueues), b(x.closeClosesQueue), b(x.sendLoopShape), b(x.recvLoopShape),
		b(x.sendSetsDeadline), b(x.doStartsSession), b(x.acceptShape), b(x.queueShape), b(x.quitShape), b(x.recoveryShape))
	if err := gofacts.WriteIfChanged(filepath.Join(leanDir, "Nv/Gen/C16.lean"), out); err != nil {
		fmt.Fprintln(os.Stderr, err)
		os.Exit(2)
	}
	fmt.Printf("extract C16: sendPop=%s emptySend=%s quit(once=%v onExit=%v dec=%v closeQ=%v closeConn=%v) defers(send=%s recv=%s) accept=%s "+
		"facts(start=%v send=%v close=%v sendLoop=%v recvLoop=%v sendDl=%v do=%v accept=%v queue=%v quit=%v recovery=%v)\n",
		x.sendPop, x.emptySend, x.quitOnce, x.quitOnExit, x.quitDec, x.quitCloseQ, x.quitCloseConn, x.sendDefers, x.recvDefers, x.acceptCmp,
		x.startIncOnce, x.sendEnqueues, x.closeClosesQueue, x.sendLoopShape, x.recvLoopShape, x.sendSetsDeadline, x.doStartsSession,
		x.acceptShape, x.queueShape, x.quitShape, x.recoveryShape)
}
