package main

import (
	"fmt"
	"go/ast"
	"go/parser"
	"go/token"
	"os"
	"path/filepath"
	"strings"

	"nvharness/lib/gofacts"
)

// ---------------------------------------------------------------- extract
//
// Every fact is an exact-shape comparison of a WHOLE function declaration (receiver, signature, body) in canonical
// form (gofacts.Canon: locals renamed in order of appearance, `var x = e` ≡ `x := e`, white space collapsed) against
// the canonical form of the source text the model was written from. Nothing is searched for inside a body: an
// inserted, removed or moved statement (a misplaced `defer` included) makes the comparison fail, and what cannot be
// classified is reported as unknown / false — the tie breaks instead of guessing.
//
// Before the comparison, statements that only log are removed. A statement counts as "only logging" when it is an
// expression statement `<logger>.Debug|Info|Warn|Error(args…)` with <logger> one of `s.b.Logger()`, `s.Logger()`,
// `cnf.Logger()`, or `s.loggerSendReadErr(args…)`, and every argument is free of side effects: a literal, an
// identifier, a field selection, or a call of zap.Error/Any/String/Stack, s.RemoteZap, s.KeyZaps with such arguments.
// The bodies of those helpers (loggerSendReadErr, Logger, RemoteZap, KeyZaps, RemoteAddr) are pinned themselves.

var logGetters = map[string]bool{"s.b.Logger()": true, "s.Logger()": true, "cnf.Logger()": true}
var logLevels = map[string]bool{"Debug": true, "Info": true, "Warn": true, "Error": true}
var pureCalls = map[string]bool{"zap.Error": true, "zap.Any": true, "zap.String": true, "zap.Stack": true,
	"s.RemoteZap": true, "s.KeyZaps": true}

func pureExpr(f *gofacts.File, e ast.Expr) bool {
	switch x := e.(type) {
	case *ast.BasicLit, *ast.Ident:
		return true
	case *ast.SelectorExpr:
		return pureExpr(f, x.X)
	case *ast.CallExpr:
		if !pureCalls[f.Src(x.Fun)] {
			return false
		}
		for _, a := range x.Args {
			if !pureExpr(f, a) {
				return false
			}
		}
		return true
	}
	return false
}

func isLogStmt(f *gofacts.File, st ast.Stmt) bool {
	es, ok := st.(*ast.ExprStmt)
	if !ok {
		return false
	}
	call, ok := es.X.(*ast.CallExpr)
	if !ok {
		return false
	}
	okFun := false
	if sel, ok := call.Fun.(*ast.SelectorExpr); ok {
		if f.Src(call.Fun) == "s.loggerSendReadErr" {
			okFun = true
		} else if logLevels[sel.Sel.Name] && logGetters[f.Src(sel.X)] {
			okFun = true
		}
	}
	if !okFun {
		return false
	}
	for _, a := range call.Args {
		if !pureExpr(f, a) {
			return false
		}
	}
	return true
}

// stripLogs removes pure logging statements from every block of the file (in place on the parsed copy). The textual
// forms above mean what they say only where `s` is a *Session / *Echo (whose Logger, KeyZaps, RemoteZap bodies are
// pinned) and `cnf` the start options of a *Server method: elsewhere nothing is removed.
func stripLogs(f *gofacts.File) {
	for _, d := range f.AST.Decls {
		fd, ok := d.(*ast.FuncDecl)
		if !ok || fd.Body == nil || fd.Recv == nil || len(fd.Recv.List) != 1 {
			continue
		}
		recvType := f.Src(fd.Recv.List[0].Type)
		recvName := ""
		if len(fd.Recv.List[0].Names) == 1 {
			recvName = fd.Recv.List[0].Names[0].Name
		}
		okRecv := (recvName == "s" && (recvType == "*Session" || recvType == "*Echo" || recvType == "*Server"))
		if !okRecv {
			continue
		}
		ast.Inspect(fd.Body, func(x ast.Node) bool {
			blk, ok := x.(*ast.BlockStmt)
			if !ok {
				return true
			}
			var keep []ast.Stmt
			for _, st := range blk.List {
				if !isLogStmt(f, st) {
					keep = append(keep, st)
				}
			}
			blk.List = keep
			return true
		})
	}
}

// a separator before a closing brace carries no meaning (`{ a; b }` ≡ `{ a; b; }`, `T{x: 1}` ≡ `T{x: 1,}`)
func tidy(s string) string {
	for strings.Contains(s, "; }") || strings.Contains(s, ", }") {
		s = strings.ReplaceAll(strings.ReplaceAll(s, "; }", "}"), ", }", "}")
	}
	return s
}

func want(src string) string {
	s, err := gofacts.CanonText(src)
	if err != nil {
		fmt.Fprintln(os.Stderr, "c16 extract: bad template:", err, "\n", src)
		os.Exit(2)
	}
	return tidy(s)
}

func canon(f *gofacts.File, fd *ast.FuncDecl) string { return tidy(f.Canon(fd)) }

// wantStmt: canonical form of one statement (as it stands inside a function body)
func wantStmt(src string) string {
	fset := token.NewFileSet()
	pf, err := parser.ParseFile(fset, "x.go", "package p\nfunc f() {\n"+src+"\n}", parser.SkipObjectResolution)
	if err != nil {
		fmt.Fprintln(os.Stderr, "c16 extract: bad statement template:", err)
		os.Exit(2)
	}
	file := &gofacts.File{Fset: fset, AST: pf}
	return file.Canon(pf.Decls[0].(*ast.FuncDecl).Body.List[0])
}

// is reports whether the declaration recv.name of f has exactly the canonical shape of src.
func is(f *gofacts.File, recv, name, src string) bool {
	fd := f.Func(recv, name)
	ok := fd != nil && canon(f, fd) == want(src)
	if !ok && os.Getenv("C16_EXTRACT_DEBUG") != "" {
		got := "<missing>"
		if fd != nil {
			got = canon(f, fd)
		}
		fmt.Fprintf(os.Stderr, "shape differs: %s.%s\n  got  %s\n  want %s\n", recv, name, got, want(src))
	}
	return ok
}

// ---- templates (the source the model was written from; log statements already removed)

var deferKinds = map[string]string{
	"recoveryQuit": "defer s.recovery(); defer s.quit();",
	"quitRecovery": "defer s.quit(); defer s.recovery();",
	"quitOnly":     "defer s.quit();",
	"recoveryOnly": "defer s.recovery();",
	"none":         "",
}

func tmplLoopSend(defers, pop, empty string) string {
	popCall := map[string]string{"popAnyway": "s.sendQ.PopAnyway()", "pop": "s.sendQ.Pop()"}[pop]
	check := map[string]string{
		"quits": "if !ok || len(bs) == 0 { return }",
		"skips": "if !ok { return }; if len(bs) == 0 { continue }",
	}[empty]
	return `func (s *Session) loopSend() {
	var (
		err   error
		qItem interface{}
		bs    []byte
		ok    bool
	)
	` + deferKinds[defers] + `
	for {
		qItem, err = ` + popCall + `
		if err != nil { return }
		bs, ok = qItem.([]byte)
		` + check + `
		err = s.send(bs)
		if err != nil { return }
	}
}`
}

func tmplLoopReceive(defers string) string {
	return `func (s *Session) loopReceive() {
	` + deferKinds[defers] + `
	for {
		var err = s.conn.SetReadDeadline(time.Now().Add(s.b.readTimeout))
		if err != nil { return }
		if s.rh != nil { err = s.rh.Read(s) } else { err = s.b.rh.Read(s) }
		if err != nil { return }
	}
}`
}

// quit: the four effects in the model's order, each present or not, inside exitOnce.Do or not
func tmplQuit(once, onExit, dec, closeQ, closeConn bool) string {
	body := ""
	if onExit {
		body += "if s.rh != nil { s.rh.OnExit(s) } else { s.b.rh.OnExit(s) };"
	}
	if dec {
		body += "s.b.count.Dec();"
	}
	if closeQ {
		body += "s.sendQ.Close();"
	}
	if closeConn {
		body += "if s.conn != nil { var err = s.conn.Close(); if err != nil { } };"
	}
	if once {
		return "func (s *Session) quit() { s.exitOnce.Do(func() { " + body + " }) }"
	}
	return "func (s *Session) quit() { " + body + " }"
}

func tmplLoopAccept(cmp string) string {
	return `func (s *Server) loopAccept(cnf *_SrvStartOpt) error {
	var conn net.Conn
	var err error
	var errNet ITemporary
	var ok bool
	var accDelay time.Duration
	var accRetryCount int
	var handleErr = func() error {
		errNet, ok = err.(ITemporary)
		if !ok { return err }
		if !errNet.Temporary() { return err }
		accRetryCount++
		if accRetryCount >= cnf.acceptMaxRetry { return err }
		if accDelay <= 0 { accDelay = cnf.acceptDelay } else { accDelay *= 2 }
		if accDelay >= cnf.acceptMaxDelay { accDelay = cnf.acceptMaxDelay }
		time.Sleep(accDelay)
		return nil
	}
	var outErr error
	for {
		conn, err = s.ln.Accept()
		if err != nil {
			outErr = handleErr()
			if outErr != nil { return outErr }
			continue
		}
		accDelay = 0
		accRetryCount = 0
		if s.ch.ConnCount() ` + cmp + ` cnf.maxConn {
			var e = conn.Close()
		} else {
			s.ch.Do(conn)
		}
	}
}`
}

type extracted struct {
	sendPop, emptySend, sendDefers, recvDefers, acceptCmp    string
	quitOnce, quitOnExit, quitDec, quitCloseQ, quitCloseConn bool
	facts                                                    [14]bool
}

var factNames = [14]string{"start", "send", "close", "sendLoop", "recvLoop", "sendDl", "do", "accept", "queue", "quit",
	"recovery", "server", "sessMisc", "echo"}

func doExtract(repo string) extracted {
	var x extracted
	sess := gofacts.MustLoad(repo, "stcp/sess.go")
	mgr := gofacts.MustLoad(repo, "stcp/sessmgr.go")
	srv := gofacts.MustLoad(repo, "stcp/srv.go")
	echo := gofacts.MustLoad(repo, "stcp/echo.go")
	qf := gofacts.MustLoad(repo, "syncx/pipe/q/q.go")
	// loggerSendReadErr, Logger & co. are compared as written; everything else with pure log statements removed
	loggerOK := is(sess, "Session", "loggerSendReadErr", `func (s *Session) loggerSendReadErr(msg string, err error) {
		if s.b.Logger().Level() <= zapcore.WarnLevel { s.b.Logger().Warn(msg, s.KeyZaps(zap.Error(err), s.RemoteZap())...) } }`) &&
		is(sess, "Session", "Logger", `func (s *Session) Logger() *ulog.Logger { return s.b.Logger() }`) &&
		is(mgr, "SessionMgr", "Logger", `func (m *SessionMgr) Logger() *ulog.Logger { if m.logger == nil { return ulog.GetDefaultLogger() }; return m.logger }`) &&
		is(srv, "_SrvStartOpt", "Logger", `func (o *_SrvStartOpt) Logger() *ulog.Logger { if o.logger == nil { return ulog.GetDefaultLogger() }; return o.logger }`) &&
		is(sess, "Session", "RemoteZap", `func (s *Session) RemoteZap() zap.Field { return zap.String("session.Addr", s.RemoteAddr()) }`) &&
		is(sess, "Session", "KeyZaps", `func (s *Session) KeyZaps(ext ...zap.Field) []zap.Field { return absSessionInfo(s.value, ext...) }`) &&
		is(sess, "Session", "RemoteAddr", `func (s *Session) RemoteAddr() string { return absRemoteAddr(s.remoteAddr, s.conn) }`)
	for _, f := range []*gofacts.File{sess, mgr, srv, echo, qf} {
		stripLogs(f)
	}

	// --- Start / Send / Close
	x.facts[0] = is(sess, "Session", "Start", `func (s *Session) Start() { s.startOnce.Do(func() { s.b.count.Inc(); go s.loopSend(); go s.loopReceive() }) }`)
	x.facts[1] = is(sess, "Session", "Send", `func (s *Session) Send(bs []byte) error { return s.sendQ.AddReq(bs) }`)
	x.facts[2] = is(sess, "Session", "Close", `func (s *Session) Close() { s.sendQ.Close() }`)

	// --- loopSend: which of the known whole-function shapes is it?
	x.sendPop, x.emptySend, x.sendDefers = "unknown", "unknown", "unknown"
	if fd := sess.Func("Session", "loopSend"); fd != nil {
		got := canon(sess, fd)
		for d := range deferKinds {
			for _, p := range []string{"popAnyway", "pop"} {
				for _, e := range []string{"quits", "skips"} {
					if got == want(tmplLoopSend(d, p, e)) {
						x.sendDefers, x.sendPop, x.emptySend = d, p, e
						x.facts[3] = true
					}
				}
			}
		}
	}
	// --- loopReceive
	x.recvDefers = "unknown"
	if fd := sess.Func("Session", "loopReceive"); fd != nil {
		got := canon(sess, fd)
		for d := range deferKinds {
			if got == want(tmplLoopReceive(d)) {
				x.recvDefers = d
				x.facts[4] = true
			}
		}
	}
	// --- send
	x.facts[5] = is(sess, "Session", "send", `func (s *Session) send(buf []byte) error {
		var err = s.conn.SetWriteDeadline(time.Now().Add(s.b.writeTimeout))
		if err != nil { return err }
		_, err = s.conn.Write(buf)
		return err }`)
	// --- quit
	if fd := sess.Func("Session", "quit"); fd != nil {
		got := canon(sess, fd)
		for m := 0; m < 32; m++ {
			o, a, b, c, d := m&1 != 0, m&2 != 0, m&4 != 0, m&8 != 0, m&16 != 0
			if got == want(tmplQuit(o, a, b, c, d)) {
				x.quitOnce, x.quitOnExit, x.quitDec, x.quitCloseQ, x.quitCloseConn = o, a, b, c, d
				x.facts[9] = true
			}
		}
	}
	if fd := sess.Func("Session", "quit"); fd != nil && !x.facts[9] {
		// not one of the known shapes (e.g. the effects in another order): the shape fact stays false — the tie is
		// broken — but the oracle still follows which effects are there, so that only the tie reports it
		stmts := fd.Body.List
		if len(stmts) == 1 {
			if es, ok := stmts[0].(*ast.ExprStmt); ok {
				if call, ok := es.X.(*ast.CallExpr); ok && sess.Src(call.Fun) == "s.exitOnce.Do" && len(call.Args) == 1 {
					if fl, ok := call.Args[0].(*ast.FuncLit); ok {
						x.quitOnce, stmts = true, fl.Body.List
					}
				}
			}
		}
		for _, st := range stmts {
			switch tidy(sess.Canon(st)) {
			case tidy(wantStmt("if s.rh != nil { s.rh.OnExit(s) } else { s.b.rh.OnExit(s) }")):
				x.quitOnExit = true
			case tidy(wantStmt("s.b.count.Dec()")):
				x.quitDec = true
			case tidy(wantStmt("s.sendQ.Close()")):
				x.quitCloseQ = true
			case tidy(wantStmt("if s.conn != nil { var err = s.conn.Close(); if err != nil { } }")):
				x.quitCloseConn = true
			}
		}
	}
	// --- recovery: the deferred function itself calls recover()
	x.facts[10] = is(sess, "Session", "recovery", `func (s *Session) recovery() { var r = recover(); if r != nil { } }`)

	// --- manager
	x.facts[6] = is(mgr, "SessionMgr", "Do", `func (m *SessionMgr) Do(conn net.Conn) { var session = NewSession(m, conn); session.Start() }`) &&
		is(mgr, "SessionMgr", "ConnCount", `func (m *SessionMgr) ConnCount() int32 { return m.count.Load() }`) &&
		is(mgr, "SessionMgr", "SetLogger", `func (m *SessionMgr) SetLogger(logger *ulog.Logger) { m.logger = logger }`) &&
		is(sess, "", "NewSession", `func NewSession(b *SessionMgr, conn net.Conn) *Session { return &Session{ b: b, conn: conn, sendQ: q.NewQ(), } }`)

	// --- accept loop (all of it)
	x.acceptCmp = "unknown"
	if fd := srv.Func("Server", "loopAccept"); fd != nil {
		got := canon(srv, fd)
		for name, tok := range map[string]string{"ge": ">=", "gt": ">"} {
			if got == want(tmplLoopAccept(tok)) {
				x.acceptCmp = name
				x.facts[7] = true
			}
		}
	}

	// --- queue
	x.facts[8] = is(qf, "Q", "AddReq", `func (a *Q) AddReq(req interface{}) error {
		a.lock.Lock(); defer a.lock.Unlock()
		if a.closed { return ErrClosed }
		if a.reqMaxNum > 0 { if a.reqList.Len() >= a.reqMaxNum { return ErrReqQFull } }
		a.reqList.PushBack(req); a.cond.Broadcast(); return nil }`) &&
		is(qf, "Q", "Close", `func (a *Q) Close() { a.lock.Lock(); defer a.lock.Unlock(); if a.closed { return }; a.closed = true; a.cond.Broadcast() }`) &&
		is(qf, "Q", "PopAnyway", `func (a *Q) PopAnyway() (interface{}, error) { return a.pop(false) }`) &&
		is(qf, "Q", "Pop", `func (a *Q) Pop() (interface{}, error) { return a.pop(true) }`) &&
		is(qf, "Q", "pop", `func (a *Q) pop(checkClose bool) (interface{}, error) {
		a.lock.Lock(); defer a.lock.Unlock()
		for a.reqList.Len() == 0 { if a.closed { return nil, ErrClosed }; a.cond.Wait() }
		if checkClose { if a.closed { return nil, ErrClosed } }
		var front = a.reqList.Front()
		if front != nil { a.reqList.Remove(front); return front.Value, nil }
		return nil, ErrSync }`) &&
		is(qf, "", "NewQ", `func NewQ(options ...Option) *Q {
		var actorQ = &Q{ reqList: list.New(), }
		var option = &_Option{}
		for _, opt := range options { opt(option) }
		if option.reqMaxNum > 0 { actorQ.reqMaxNum = option.reqMaxNum }
		actorQ.cond.L = &actorQ.lock
		return actorQ }`)

	// --- server: the public path
	x.facts[11] = is(srv, "Server", "Start", `func (s *Server) Start(opts ...Option) <-chan error {
		var eh = make(chan error, 1)
		var err error
		go func() { err = s.LoopStart(opts...); if err != nil { eh <- err } }()
		return eh }`) &&
		is(srv, "Server", "LoopStart", `func (s *Server) LoopStart(opts ...Option) error {
		var cnf = defaultStartOpt()
		for _, opt := range opts { opt(cnf) }
		s.ch.SetLogger(cnf.logger)
		var err = s.startListen(cnf)
		if err != nil { return err }
		return s.loopAccept(cnf) }`) &&
		is(srv, "Server", "startListen", `func (s *Server) startListen(cnf *_SrvStartOpt) error {
		var err error
		s.ln, err = net.Listen("tcp", s.address)
		if err != nil { return err }
		return nil }`) &&
		is(srv, "Server", "Close", `func (s *Server) Close() error { return s.ln.Close() }`) &&
		is(srv, "Server", "Address", `func (s *Server) Address() string { return s.address }`) &&
		is(srv, "", "NewTCPSrv", `func NewTCPSrv(address string, ch IConnMgr) *Server { return &Server{ address: address, ch: ch, } }`) &&
		is(srv, "", "NewTCPSrvX", `func NewTCPSrvX(address string, rh ISession, opts ...MOption) *Server { var ch = NewSessionMgr(rh, opts...); return NewTCPSrv(address, ch) }`)

	// --- the rest of sess.go the property depends on
	x.facts[12] = loggerOK &&
		is(sess, "Session", "UpdateHandler", `func (s *Session) UpdateHandler(rh ISession) { s.rh = rh }`) &&
		is(sess, "Session", "Read", `func (s *Session) Read(bs []byte) error { var _, err = io.ReadFull(s.conn, bs); return err }`)

	// --- echo.go
	x.facts[13] = is(echo, "Echo", "Start", `func (s *Echo) Start() { s.startOnce.Do(func() { s.b.count.Inc(); go s.b.eh.RunEcho(s) }) }`) &&
		is(echo, "Echo", "ReleaseRef", `func (s *Echo) ReleaseRef() { s.b.count.Dec() }`) &&
		is(echo, "Echo", "Send", `func (s *Echo) Send(bs []byte) error {
		var err = s.conn.SetWriteDeadline(time.Now().Add(s.b.writeTimeout))
		if err != nil { return err }
		_, err = s.conn.Write(bs)
		return err }`) &&
		is(echo, "Echo", "Read", `func (s *Echo) Read(bs []byte) error {
		var err = s.conn.SetReadDeadline(time.Now().Add(s.b.readTimeout))
		if err != nil { return err }
		_, err = io.ReadFull(s.conn, bs)
		return err }`) &&
		is(echo, "Echo", "Close", `func (s *Echo) Close() { var err = s.conn.Close(); if err != nil { } }`) &&
		is(echo, "", "NewEcho", `func NewEcho(b *EchoMgr, conn net.Conn) *Echo { return &Echo{ b: b, conn: conn, } }`) &&
		is(echo, "EchoMgr", "Do", `func (m *EchoMgr) Do(conn net.Conn) { var echo = NewEcho(m, conn); echo.Start() }`) &&
		is(echo, "EchoMgr", "ConnCount", `func (m *EchoMgr) ConnCount() int32 { return m.count.Load() }`) &&
		is(echo, "EchoMgr", "SetLogger", `func (m *EchoMgr) SetLogger(logger *ulog.Logger) { m.logger = logger }`)
	return x
}

func extract(repo, leanDir string) {
	x := doExtract(repo)
	b := gofacts.LeanBool
	var fs, fl []string
	for i, v := range x.facts {
		fs = append(fs, b(v))
		fl = append(fl, fmt.Sprintf("%s=%v", factNames[i], v))
	}
	out := fmt.Sprintf(`import Nv.Model.C16
/-! GENERATED by `+"`c16 extract`"+` from stcp/{sess,sessmgr,srv,echo}.go, syncx/pipe/q/q.go — do not edit. -/
namespace Nv.Gen.C16
def cfg : Nv.C16.Cfg := ⟨.%s, .%s, %s, %s, %s, %s, %s, .%s, .%s, .%s⟩
def facts : Nv.C16.Facts := ⟨%s⟩
end Nv.Gen.C16
`, x.sendPop, x.emptySend, b(x.quitOnce), b(x.quitOnExit), b(x.quitDec), b(x.quitCloseQ), b(x.quitCloseConn),
		x.sendDefers, x.recvDefers, x.acceptCmp, strings.Join(fs, ", "))
	if err := gofacts.WriteIfChanged(filepath.Join(leanDir, "Nv/Gen/C16.lean"), out); err != nil {
		fmt.Fprintln(os.Stderr, err)
		os.Exit(2)
	}
	fmt.Printf("extract C16: sendPop=%s emptySend=%s quit(once=%v onExit=%v dec=%v closeQ=%v closeConn=%v) defers(send=%s recv=%s) accept=%s facts(%s)\n",
		x.sendPop, x.emptySend, x.quitOnce, x.quitOnExit, x.quitDec, x.quitCloseQ, x.quitCloseConn, x.sendDefers, x.recvDefers, x.acceptCmp,
		strings.Join(fl, " "))
}
