package main

import (
	"errors"
	"fmt"
	"io"
	"net"
	"os"
	"regexp"
	"runtime"
	"strconv"
	"strings"
	"sync"
	"sync/atomic"
	"time"

	"github.com/pinealctx/neptune/stcp"
	"github.com/pinealctx/neptune/ulog"
	"go.uber.org/zap"
	"go.uber.org/zap/zapcore"
)

// ---------------------------------------------------------------- fault-injecting connection (server side of a net.Pipe)

var errInjected = errors.New("c16-injected-io-error")
var errHandler = errors.New("c16-handler-error")
var errListenerClosed = errors.New("c16-listener-closed")

type pipeAddr string

func (a pipeAddr) Network() string { return "pipe" }
func (a pipeAddr) String() string  { return string(a) }

var past = time.Unix(1, 0)

type fconn struct {
	net.Conn  // the session's end of the pipe
	id        string
	mu        sync.Mutex
	closes    int32
	inWrite   int32
	injR      bool  // blocked / next Read returns errInjected
	injW      bool  // blocked / next Write returns errInjected
	injRDL    bool  // next SetReadDeadline fails
	injWDL    bool  // next SetWriteDeadline fails
	partErr   error // armed: the next (or the blocked) Write returns (partN, partErr) once
	partN     int
	peerHolds func() bool
	closeErr  bool // Close reports an error (after closing)
	keepRDL   bool // a forced (past) read deadline stays
	keepWDL   bool // a forced (past) write deadline stays
	rdlCalls  int32
	wdlCalls  int32
	writes    int32
	badRDL    int32 // SetReadDeadline calls whose distance from now is not the configured timeout
	badWDL    int32
	noWDL     int32 // Write calls not preceded by a SetWriteDeadline since the previous Write
	wdlFresh  bool
	rt, wt    time.Duration
	// real write deadlines (mode wt) reach the pipe only while the peer does not read: a write to a reading peer
	// then never depends on how fast this machine is
	realWDL func() bool
}

func (c *fconn) flag(p *bool) bool {
	c.mu.Lock()
	defer c.mu.Unlock()
	return *p
}

func (c *fconn) Read(b []byte) (int, error) {
	n, err := c.Conn.Read(b)
	if err != nil && c.flag(&c.injR) {
		return n, errInjected
	}
	return n, err
}

func (c *fconn) Write(b []byte) (int, error) {
	atomic.AddInt32(&c.inWrite, 1)
	defer atomic.AddInt32(&c.inWrite, -1)
	atomic.AddInt32(&c.writes, 1)
	c.mu.Lock()
	if !c.wdlFresh {
		c.noWDL++
	}
	c.wdlFresh = false
	inj := c.injW
	perr, part := c.partErr, c.partN
	c.partErr = nil // one shot: the next attempt is an ordinary Write again
	c.mu.Unlock()
	if perr != nil {
		// partial write, then the error: k < len(b) bytes really reach a reading peer; none reach one that holds
		k := part
		if k > len(b)-1 {
			k = len(b) - 1
		}
		if k <= 0 || (c.peerHolds != nil && c.peerHolds()) {
			return 0, perr
		}
		n, err := c.Conn.Write(b[:k])
		if err != nil {
			return n, err
		}
		return k, perr
	}
	if inj {
		return 0, errInjected
	}
	n, err := c.Conn.Write(b)
	if err != nil {
		c.mu.Lock()
		inj, perr = c.injW, c.partErr
		c.partErr = nil
		c.mu.Unlock()
		if perr != nil {
			return n, perr // a blocked Write interrupted by wpart / wtemp (nothing was taken by the peer)
		}
		if inj {
			return n, errInjected
		}
	}
	return n, err
}

func near(t time.Time, d time.Duration) bool {
	got := time.Until(t)
	return got > d-5*time.Second && got < d+5*time.Second
}

func (c *fconn) SetReadDeadline(t time.Time) error {
	atomic.AddInt32(&c.rdlCalls, 1)
	if !near(t, c.rt) {
		atomic.AddInt32(&c.badRDL, 1)
	}
	c.mu.Lock()
	inj, keep := c.injRDL, c.keepRDL
	c.mu.Unlock()
	if inj {
		return errInjected
	}
	if keep {
		return nil
	}
	return c.Conn.SetReadDeadline(t)
}

func (c *fconn) SetWriteDeadline(t time.Time) error {
	atomic.AddInt32(&c.wdlCalls, 1)
	if !near(t, c.wt) {
		atomic.AddInt32(&c.badWDL, 1)
	}
	c.mu.Lock()
	c.wdlFresh = true
	inj, keep := c.injWDL, c.keepWDL
	c.mu.Unlock()
	if inj {
		return errInjected
	}
	if keep {
		return nil
	}
	if c.realWDL != nil && !c.realWDL() {
		return c.Conn.SetWriteDeadline(time.Now().Add(longTimeout))
	}
	return c.Conn.SetWriteDeadline(t)
}

func (c *fconn) Close() error {
	atomic.AddInt32(&c.closes, 1)
	err := c.Conn.Close()
	if c.flag(&c.closeErr) {
		return errInjected
	}
	return err
}

func (c *fconn) RemoteAddr() net.Addr { return pipeAddr(c.id) }

// ---------------------------------------------------------------- in-memory listener

type pipeListener struct {
	ch   chan net.Conn
	errs chan error
	done chan struct{}
	once sync.Once
}

// tempErr is an Accept error of the kind the loop retries (ITemporary)
type tempErr struct{}

func (tempErr) Error() string   { return "c16-temporary-accept-error" }
func (tempErr) Temporary() bool { return true }
func (tempErr) Timeout() bool   { return false }

var errAcceptFatal = errors.New("c16-permanent-accept-error")

func newPipeListener() *pipeListener {
	return &pipeListener{ch: make(chan net.Conn), errs: make(chan error), done: make(chan struct{})}
}
func (l *pipeListener) Accept() (net.Conn, error) {
	select {
	case c := <-l.ch:
		return c, nil
	case e := <-l.errs:
		return nil, e
	case <-l.done:
		return nil, errListenerClosed
	}
}
func (l *pipeListener) Close() error   { l.once.Do(func() { close(l.done) }); return nil }
func (l *pipeListener) Addr() net.Addr { return pipeAddr("listener") }

// ---------------------------------------------------------------- one connection attempt / session as the harness sees it

type cstate struct {
	id   string
	fc   *fconn   // nil in tcp mode
	peer net.Conn // the client's end

	mu      sync.Mutex
	cond    *sync.Cond
	s       *stcp.Session // learnt from the handler callbacks
	e       *stcp.Echo    // echo worlds: learnt from RunEcho
	running bool          // echo worlds: RunEcho has not returned
	// how the handler's OnExit behaves for this session (environment assumption of the property: it returns)
	exitPanics, exitBlocks bool
	release                chan struct{}
	exits                  int
	entered                int
	reads                  int
	buf                    []byte // bytes the peer has read
	eof                    bool   // the peer's read ended (EOF / reset / closed)
	hold                   bool
	slow                   int  // > 0: the peer reads at most that many bytes at a time
	drainOut               bool // the drainer goroutine has returned

	// what the script did to it (for the monitors)
	accepted     [][]byte // payloads for which Send returned nil
	emptyAt      int      // index in accepted of the first accepted empty payload, -1 if none
	closedLocal  bool
	peerClosedBy bool
	readKilled   bool // a failing read / handler error / panic was delivered while the session could see it
	writeFault   bool
	isSession    bool
	valueKind    string
	exitFaulty   bool // xpanic / xblock was applied: outside the property's assumptions, monitors stand down
}

func (cs *cstate) snapshot() (exits, reads int, buf []byte, eof bool, s *stcp.Session) {
	cs.mu.Lock()
	defer cs.mu.Unlock()
	return cs.exits, cs.reads, append([]byte{}, cs.buf...), cs.eof, cs.s
}

func isTimeout(err error) bool {
	var ne net.Error
	return errors.As(err, &ne) && ne.Timeout()
}

// drainer: the peer's reading side. While `hold` it does not read at all.
func (cs *cstate) drainLoop() {
	b := make([]byte, 4096)
	defer func() {
		cs.mu.Lock()
		cs.drainOut = true
		cs.mu.Unlock()
	}()
	for {
		cs.mu.Lock()
		for cs.hold {
			cs.cond.Wait()
		}
		chunk := len(b)
		if cs.slow > 0 {
			chunk = cs.slow // a slow reader: small reads, giving the processor away in between (no clock involved)
		}
		cs.mu.Unlock()
		if chunk < len(b) {
			for i := 0; i < 3; i++ {
				runtime.Gosched()
			}
		}
		n, err := cs.peer.Read(b[:chunk])
		cs.mu.Lock()
		cs.buf = append(cs.buf, b[:n]...)
		if err != nil {
			if isTimeout(err) && cs.hold {
				cs.mu.Unlock()
				continue
			}
			cs.eof = true
			cs.mu.Unlock()
			return
		}
		cs.mu.Unlock()
	}
}

// ---------------------------------------------------------------- handler (the ISession of the manager)

type registry struct {
	mu   sync.Mutex
	byID map[string]*cstate
}

// handler is the ISession installed in the manager (tag 1) or through UpdateHandler (tag 2): same behaviour.
type handler struct {
	*registry
	tag int
}

func (h *handler) lookup(s *stcp.Session) *cstate {
	id := s.RemoteAddr()
	h.mu.Lock()
	cs := h.byID[id]
	h.mu.Unlock()
	if cs != nil {
		cs.mu.Lock()
		if cs.s == nil {
			cs.s = s
		}
		cs.mu.Unlock()
	}
	return cs
}

func (h *handler) Read(s *stcp.Session) error {
	cs := h.lookup(s)
	if cs == nil {
		return errHandler
	}
	cs.mu.Lock()
	cs.entered++
	cs.mu.Unlock()
	var b [1]byte
	if err := s.Read(b[:]); err != nil {
		return err
	}
	switch b[0] {
	case 'd':
		cs.mu.Lock()
		cs.reads++
		cs.mu.Unlock()
		return nil
	case 'e':
		return errHandler
	case 'p':
		panic("c16-handler-panic")
	case 'n':
		panic(nil)
	}
	return nil
}

func (h *handler) OnExit(s *stcp.Session) {
	if cs := h.lookup(s); cs != nil {
		cs.mu.Lock()
		cs.exits++
		pan, blk, rel := cs.exitPanics, cs.exitBlocks, cs.release
		cs.mu.Unlock()
		if pan {
			panic("c16-onexit-panic")
		}
		if blk {
			<-rel
		}
	}
}

// echoHandler is the IEcho of the echo worlds: it echoes 'd' bytes, ends on 'e' or on a read error, and then does
// what an Echo user must do: close the connection and release the count.
type echoHandler struct{ *registry }

func (h echoHandler) RunEcho(e *stcp.Echo) {
	id := e.RemoteAddr()
	h.mu.Lock()
	cs := h.byID[id]
	h.mu.Unlock()
	if cs == nil {
		e.Close()
		e.ReleaseRef()
		return
	}
	cs.mu.Lock()
	first := cs.e == nil
	cs.e = e
	cs.running = true
	cs.entered++
	cs.mu.Unlock()
	if !first {
		// a second RunEcho for the same connection (Start ran twice): leave it to the monitors (count, exits)
		cs.mu.Lock()
		cs.exits += 100
		cs.mu.Unlock()
	}
	defer func() {
		e.Close()
		e.ReleaseRef()
		cs.mu.Lock()
		cs.exits++
		cs.running = false
		cs.mu.Unlock()
	}()
	var b [1]byte
	for {
		if err := e.Read(b[:]); err != nil {
			return
		}
		switch b[0] {
		case 'd':
			cs.mu.Lock()
			cs.reads++
			cs.mu.Unlock()
			if err := e.Send([]byte{'d'}); err != nil {
				return
			}
		case 'e':
			return
		}
	}
}

// ---------------------------------------------------------------- world

const (
	longTimeout = time.Hour
	shortRead   = 60 * time.Millisecond  // mode rt: nothing races with it, every observation waits for the sessions to end
	shortWrite  = 250 * time.Millisecond // mode wt: a write to a reading peer must finish well within it, even on a loaded machine
	ceiling     = 5 * time.Second
)

type world struct {
	mode       string
	tcp        bool // the sessions run over loopback TCP (modes tcp, pub, publ, pubx)
	echo       bool // Echo sessions behind the accept loop
	noCount    bool // the manager is out of reach (NewTCPSrvX creates it)
	stopped    bool // the accept loop has returned
	max        int
	rt, wt     time.Duration
	h          *handler
	mgr        *stcp.SessionMgr
	emgr       *stcp.EchoMgr
	srv        *stcp.Server
	addr       string // tcp worlds: where the server listens
	prevLogger *ulog.Logger
	accMu      sync.Mutex
	accPanic   string // the accept loop died of this panic
	broken     bool   // an environment assumption of the property was broken on purpose (xpanic/xblock)
	pl         *pipeListener
	tl         net.Listener
	srvErr     chan error
	sess       []*cstate // accepted sessions, index = k of the script
	all        []*cstate
	rej        int
	nconn      int
	hits       []hit
	late       int    // waits that ran into the ceiling
	spin       bool   // a loop of the code under test never parks
	dead       string // harness-level failure text, reported in every following line
}

type hit struct{ key, what string }

var worldSeq int64
var lateTotal int
var spinTotal int
var spinsBefore, _ = strconv.Atoi(os.Getenv("C16_SPINS"))

// accept-loop options of the pipe worlds: three consecutive temporary Accept errors stop the loop; tiny back-off
var acceptOpts = []stcp.Option{stcp.WithAccMaxRetry(3), stcp.WithAccDelay(time.Microsecond), stcp.WithAccMaxDelay(4 * time.Microsecond)}

func newWorld(max int, mode string) *world {
	w := &world{mode: mode, max: max, rt: longTimeout, wt: longTimeout, h: &handler{registry: &registry{byID: map[string]*cstate{}}, tag: 1}}
	w.srvErr = make(chan error, 1)
	maxOpt := stcp.WithMaxConn(int32(max))
	switch mode {
	case "rt":
		w.rt = shortRead
	case "wt":
		w.wt = shortWrite
	}
	switch mode {
	case "pipe", "rt", "wt", "plog", "wlog":
		opts := append([]stcp.Option{maxOpt}, acceptOpts...)
		switch mode {
		case "plog":
			// what an application does at start-up: install its own default logger (restored when the world goes)
			w.prevLogger = ulog.GetDefaultLogger()
			ulog.SetDefaultLogger(discardLogger())
		case "wlog":
			opts = append(opts, stcp.WithLogger(discardLogger())) // a logger handed to the server: SetLogger path
		}
		w.mgr = stcp.NewSessionMgr(w.h, stcp.WithReadTimeout(w.rt), stcp.WithWriteTimeout(w.wt))
		w.srv = stcp.NewTCPSrv("c16", w.mgr)
		w.pl = newPipeListener()
		go w.serve(func() error { return w.srv.VerifServe(w.pl, opts...) })
	case "echo":
		w.echo = true
		w.emgr = stcp.NewEchoMgr(echoHandler{w.h.registry}, stcp.WithReadTimeout(w.rt), stcp.WithWriteTimeout(w.wt))
		w.srv = stcp.NewTCPSrv("c16", w.emgr)
		w.pl = newPipeListener()
		go w.serve(func() error { return w.srv.VerifServe(w.pl, append([]stcp.Option{maxOpt}, acceptOpts...)...) })
	case "tcp":
		w.tcp = true
		w.mgr = stcp.NewSessionMgr(w.h, stcp.WithReadTimeout(w.rt), stcp.WithWriteTimeout(w.wt))
		w.srv = stcp.NewTCPSrv("c16", w.mgr)
		l, err := net.Listen("tcp", "127.0.0.1:0")
		if err != nil {
			w.dead = "listen:" + err.Error()
			return w
		}
		w.tl, w.addr = l, l.Addr().String()
		go w.serve(func() error { return w.srv.VerifServe(l, maxOpt) })
	case "pub", "publ", "pubx":
		// the REAL public path: constructor, Start / LoopStart, startListen, option plumbing, DEFAULT manager timeouts.
		// The public API cannot report a port chosen by the kernel, so a free port is picked first; if somebody
		// else takes it in between, Start reports the error and another port is tried.
		w.tcp = true
		for try := 0; ; try++ {
			probe, err := net.Listen("tcp", "127.0.0.1:0")
			if err != nil {
				w.dead = "listen:" + err.Error()
				return w
			}
			w.addr = probe.Addr().String()
			_ = probe.Close()
			var errCh <-chan error
			switch mode {
			case "pub":
				w.mgr = stcp.NewSessionMgr(w.h) // no options: the default read (20 s) and write (8 s) timeouts
				w.srv = stcp.NewTCPSrv(w.addr, w.mgr)
				errCh = w.srv.Start(maxOpt)
			case "publ":
				w.mgr = stcp.NewSessionMgr(w.h)
				w.srv = stcp.NewTCPSrv(w.addr, w.mgr)
				ch := make(chan error, 1)
				srv := w.srv
				go func() { ch <- srv.LoopStart(maxOpt) }()
				errCh = ch
			case "pubx":
				w.noCount = true
				w.rt = shortRead
				w.srv = stcp.NewTCPSrvX(w.addr, w.h, stcp.WithReadTimeout(shortRead))
				errCh = w.srv.Start(maxOpt)
			}
			// listening? (a probe connection would be a session: look at the socket table instead — a dial that is
			// refused creates nothing, so poll with refused dials only until the port answers, then drop the probe)
			up := false
			deadline := time.Now().Add(ceiling)
			for time.Now().Before(deadline) && !up {
				select {
				case e := <-errCh:
					_ = e
					deadline = time.Now() // bind failed: next port
				default:
					if tcpListening(w.addr) {
						up = true
					} else {
						time.Sleep(200 * time.Microsecond)
					}
				}
			}
			if up {
				go func() { w.srvErr <- <-errCh }()
				break
			}
			if try >= 20 {
				w.dead = "cannot start a public-path server on a free loopback port"
				return w
			}
		}
	}
	return w
}

// serve runs the accept loop in a goroutine of the harness. A panic inside it (the loop itself, or a log statement
// it executes) would kill the process; here it can be caught: the loop is gone, which the following lines show
// (`r=panic:…`, connections lost) and a monitor hit names.
func (w *world) serve(run func() error) {
	defer func() {
		if p := recover(); p != nil {
			w.accMu.Lock()
			w.accPanic = fmt.Sprint(p)
			w.accMu.Unlock()
			w.srvErr <- fmt.Errorf("panic: %v", p)
		}
	}()
	w.srvErr <- run()
}

func (w *world) acceptPanic() string {
	w.accMu.Lock()
	defer w.accMu.Unlock()
	return w.accPanic
}

// discardLogger: a user-made logger (debug level, every line encoded, bytes discarded)
func discardLogger() *ulog.Logger {
	enc := zap.NewProductionEncoderConfig()
	sink := zap.WrapCore(func(zapcore.Core) zapcore.Core {
		return zapcore.NewCore(zapcore.NewJSONEncoder(enc), zapcore.AddSync(io.Discard), zapcore.DebugLevel)
	})
	return ulog.NewSimpleLogger(ulog.DebugLevelStr, zap.AddCaller(), zap.AddCallerSkip(1), sink)
}

// tcpListening reports whether some socket listens on addr, without connecting to it (/proc/net/tcp, state 0A).
func tcpListening(addr string) bool {
	host, port, err := net.SplitHostPort(addr)
	if err != nil || host != "127.0.0.1" {
		return false
	}
	p, _ := strconv.Atoi(port)
	want := fmt.Sprintf("0100007F:%04X", p)
	b, err := os.ReadFile("/proc/net/tcp")
	if err != nil {
		return false
	}
	for _, line := range strings.Split(string(b), "\n") {
		f := strings.Fields(line)
		if len(f) > 3 && f[1] == want && f[3] == "0A" {
			return true
		}
	}
	return false
}

func (w *world) count() int {
	switch {
	case w.emgr != nil:
		return int(w.emgr.ConnCount())
	case w.mgr != nil:
		return int(w.mgr.ConnCount())
	}
	return -1
}

var loopRe = regexp.MustCompile(`stcp\.\(\*Session\)\.loop(?:Send|Receive)\((0x[0-9a-f]+)`)

// loopsOf counts, per session pointer, the goroutines still inside loopSend / loopReceive.
func loopsOf() map[string]int {
	m := map[string]int{}
	for _, g := range snapshot() {
		for _, mm := range loopRe.FindAllStringSubmatch(g.Text, -1) {
			m[mm[1]]++
		}
	}
	return m
}

func (w *world) ended(cs *cstate, loops map[string]int) bool {
	ex, _, _, _, s := cs.snapshot()
	if w.echo {
		cs.mu.Lock()
		defer cs.mu.Unlock()
		return ex >= 1 && !cs.running
	}
	if ex < 1 || s == nil {
		return false
	}
	return loops[fmt.Sprintf("%p", s)] == 0
}

// waitFor polls cond (with a quiescence check in the pipe modes) up to the ceiling.
func (w *world) waitFor(cond func() bool) {
	// the first expected observation that does not arrive costs the full ceiling; after that the world is known
	// to deviate (the line is reported as observed) and later waits in the same world are cut short
	d := ceiling
	if w.late > 0 {
		d = 150 * time.Millisecond
	} else if lateTotal >= 3 {
		d = 500 * time.Millisecond // this process has already shown deviations: keep the rest of the run short
	}
	deadline := time.Now().Add(d)
	sleep := 200 * time.Microsecond
	for {
		if !w.tcp {
			w.quiesce()
			if w.dead != "" || w.spin {
				return
			}
		}
		if time.Now().After(deadline) {
			// The expected observation did not arrive. If every goroutine of the code under test and of the harness is
			// parked, nothing more will happen by itself: the line is reported as observed (a verdict). If something is
			// still running, the machine was too slow for the ceiling: that is a harness error, never a verdict.
			// (A loop of the code under test that never parks is a finding of its own: quiesce() tells the two apart.)
			if !quietNow() {
				w.quiesce()
				if w.dead != "" {
					w.dead = fmt.Sprintf("ceiling of %v exceeded while goroutines were still running (machine too slow?): %s", d, w.dead)
				}
				if w.dead != "" || w.spin {
					return
				}
			}
			w.late++
			lateTotal++
			return
		}
		if cond() {
			// what made the condition true may still be unwinding: settle once more and look again
			if w.tcp {
				return
			}
			w.quiesce()
			if w.dead != "" || w.spin || cond() {
				return
			}
		}
		time.Sleep(sleep)
		if sleep < 4*time.Millisecond {
			sleep *= 2
		}
	}
}

// settle brings the world to the next observation point after an op.
func (w *world) settle(cond func() bool) {
	switch w.mode {
	case "pipe", "echo", "plog", "wlog":
		w.quiesce()
	case "rt", "pubx":
		// every read deadline expires: wait until all sessions are over (tcp: and the client has seen the close)
		w.waitFor(func() bool {
			loops := loopsOf()
			for _, cs := range w.sess {
				if !w.ended(cs, loops) {
					return false
				}
				if _, _, _, eof, _ := cs.snapshot(); w.tcp && !eof && !cs.peerClosedBy {
					return false
				}
			}
			return true
		})
	case "wt":
		// every blocked write times out: wait until no session is inside conn.Write
		w.waitFor(func() bool {
			for _, cs := range w.sess {
				if atomic.LoadInt32(&cs.fc.inWrite) != 0 {
					return false
				}
			}
			return true
		})
	case "tcp", "pub", "publ":
		if cond == nil {
			cond = func() bool { return true }
		}
		w.waitFor(cond)
	}
}

// deliver creates one connection and hands it to the accept loop (pipe modes: through the in-memory listener,
// blocking until Accept takes it; tcp: a dial). nil if it could not be delivered.
func (w *world) deliver() *cstate {
	id := fmt.Sprintf("w%d-c%d", atomic.AddInt64(&worldSeq, 1), w.nconn)
	w.nconn++
	cs := &cstate{id: id, emptyAt: -1}
	cs.cond = sync.NewCond(&cs.mu)
	cs.release = make(chan struct{})
	if w.stopped {
		return nil
	}
	select {
	case e := <-w.srvErr:
		w.srvErr <- e
		w.stopped = true
		return nil
	default:
	}
	if w.tcp {
		// the handler looks the connection up by the client's address: keep the registry locked until it is known
		w.h.mu.Lock()
		c, err := net.DialTimeout("tcp", w.addr, ceiling)
		if err != nil {
			w.h.mu.Unlock()
			return nil
		}
		cs.peer = c
		cs.id = c.LocalAddr().String()
		w.h.byID[cs.id] = cs
		w.h.mu.Unlock()
		w.all = append(w.all, cs)
		go cs.drainLoop()
		return cs
	}
	a, b := net.Pipe()
	cs.fc = &fconn{Conn: a, id: id, rt: w.rt, wt: w.wt}
	cs.fc.peerHolds = func() bool { cs.mu.Lock(); defer cs.mu.Unlock(); return cs.hold }
	if w.mode == "wt" {
		cs.fc.realWDL = cs.fc.peerHolds
	}
	cs.peer = b
	w.h.mu.Lock()
	w.h.byID[id] = cs
	w.h.mu.Unlock()
	w.all = append(w.all, cs)
	go cs.drainLoop()
	select {
	case w.pl.ch <- cs.fc:
	case <-time.After(ceiling):
		return nil
	}
	return cs
}

func (cs *cstate) registered() bool {
	cs.mu.Lock()
	defer cs.mu.Unlock()
	return cs.s != nil || cs.e != nil
}

func (cs *cstate) closedSeen() bool {
	if cs.fc != nil {
		return atomic.LoadInt32(&cs.fc.closes) > 0
	}
	cs.mu.Lock()
	defer cs.mu.Unlock()
	return cs.eof
}

// decided: the accept loop has either closed the connection or started a session whose loops are running
func (w *world) decided(cs *cstate) bool {
	if cs.closedSeen() {
		return true
	}
	if !cs.registered() {
		return false
	}
	// tcp: both loop goroutines must have entered their loops before they can be counted
	cs.mu.Lock()
	s := cs.s
	cs.mu.Unlock()
	return !w.tcp || s == nil || loopsOf()[fmt.Sprintf("%p", s)] == 2
}

// connectN delivers n connections back to back (no observation in between), then waits and classifies them in
// the order they were delivered. Returns (accepted, rejected, lost).
func (w *world) connectN(n int) (acc, rej, lost int) {
	countBefore := w.count()
	if w.noCount {
		// the manager is out of reach: for the monitors use the harness's own book-keeping (sessions not yet exited)
		countBefore = 0
		for _, c := range w.sess {
			if ex, _, _, _, _ := c.snapshot(); ex == 0 {
				countBefore++
			}
		}
	}
	var cs []*cstate
	for i := 0; i < n; i++ {
		if c := w.deliver(); c != nil {
			cs = append(cs, c)
		} else {
			lost++
		}
	}
	if w.mode == "pipe" || w.mode == "echo" || w.mode == "plog" || w.mode == "wlog" {
		w.settle(nil)
	} else {
		w.waitFor(func() bool {
			for _, c := range cs {
				if !w.decided(c) {
					return false
				}
			}
			return true
		})
	}
	if p := w.acceptPanic(); p != "" && !w.stopped {
		w.stopped = true
		w.hit("C16:loopAccept:panic-kills-accept-loop", "the accept loop died: panic: "+p)
	}
	for _, c := range cs {
		switch {
		case c.registered():
			c.isSession = true
			w.sess = append(w.sess, c)
			acc++
		case c.closedSeen():
			w.rej++
			rej++
		default:
			lost++
		}
	}
	if w.max >= 0 && countBefore+acc > w.max && acc > 0 && !w.broken {
		w.hit("C16:accept:surplus-not-closed", fmt.Sprintf("ConnCount()=%d, maxConn=%d, %d connection(s) arrived and %d session(s) were started", countBefore, w.max, n, acc))
	}
	if w.max >= 0 && countBefore >= w.max && lost > 0 && !w.stopped && !w.broken {
		w.hit("C16:accept:surplus-not-closed", fmt.Sprintf("ConnCount()=%d >= maxConn=%d, a surplus connection was neither closed nor served", countBefore, w.max))
	}
	if w.max < 0 && acc > 0 {
		w.hit("C16:accept:surplus-not-closed", fmt.Sprintf("maxConn=%d is negative, every connection is surplus, yet %d session(s) were started", w.max, acc))
	}
	if acc > 0 && (w.mode == "rt" || w.mode == "wt" || w.mode == "pubx") {
		w.settle(nil)
	}
	return
}

func (w *world) connect() string {
	acc, rej, _ := w.connectN(1)
	if w.acceptPanic() != "" && acc == 0 && rej == 0 {
		return "panic:accept-loop"
	}
	switch {
	case acc == 1:
		return "acc" + strconv.Itoa(len(w.sess)-1)
	case rej == 1:
		return "rej"
	}
	return "lost"
}

func (w *world) burst(n int) string {
	acc, rej, lost := w.connectN(n)
	r := fmt.Sprintf("acc%d,rej%d", acc, rej)
	if lost > 0 {
		r += fmt.Sprintf(",lost%d", lost)
	}
	return r
}

// quiesce waits for quiescence. A loop goroutine of the code under test that never parks (it spins) is a finding
// about that code ("both session goroutines stop"), not a harness failure: it is reported as a monitor hit, the
// world is marked, and the worker process is replaced after the script. Anything else that does not settle is a
// harness failure.
func (w *world) quiesce() {
	if w.spin {
		return
	}
	// the first loop that never parks costs the full timeout; once such findings exist (in this process or, via
	// C16_SPINS, in earlier workers of this run) the verdict is decided and later scripts are cut short
	to := settleTimeout
	if n := spinTotal + spinsBefore; n >= 3 {
		to = 400 * time.Millisecond
	} else if n > 0 {
		to = 2 * time.Second
	}
	err := settleWithin(to)
	if err == nil {
		return
	}
	msg := err.Error()
	if strings.Contains(msg, "stcp.(*Session).loop") || strings.Contains(msg, "stcp.(*Server).loopAccept") {
		w.spin = true
		spinTotal++
		frames := strings.Split(msg, "\n")
		if len(frames) > 8 {
			frames = frames[:8]
		}
		w.hit("C16:loops:goroutine-never-parks", "no quiescence: a loop of the code under test keeps running instead of stopping or blocking: "+strings.Join(frames[1:], " | "))
		return
	}
	w.dead = "settle:" + strings.SplitN(msg, "\n", 2)[0]
}

// call runs one call of the session's public API in a goroutine of its own and waits for quiescence: a call that
// does not return by then is parked inside the code under test (result `parked`, and a finding: none of Send, Close,
// Start, Set, UpdateHandler may block); a panic in it becomes the line's result. The harness itself never blocks.
func (w *world) call(what string, fn func()) (returned bool, panicked string) {
	done := make(chan struct{})
	var pmsg string
	go func() {
		defer close(done)
		defer func() {
			if p := recover(); p != nil {
				pmsg = fmt.Sprint(p)
			}
		}()
		fn()
	}()
	ok := w.waitDone(done, what)
	if ok {
		return true, pmsg
	}
	return false, ""
}

// waitDone waits for a goroutine that calls into the code under test. false: it is still parked at quiescence.
func (w *world) waitDone(done chan struct{}, what string) bool {
	for i := 0; i < 20; i++ {
		select {
		case <-done:
			return true
		default:
			runtime.Gosched()
		}
	}
	deadline := time.Now().Add(6 * ceiling)
	for {
		if !w.tcp {
			w.quiesce()
		}
		select {
		case <-done:
			return true
		default:
		}
		if w.dead != "" || w.spin {
			return false
		}
		if !w.tcp || time.Now().After(deadline) {
			if w.tcp && !quietNow() {
				w.dead = "a call into the code under test did not return within the ceiling while goroutines were still running: " + what
				return false
			}
			w.hit("C16:api:call-never-returns", what+" did not return: the caller is parked inside the code under test")
			return false
		}
		time.Sleep(500 * time.Microsecond)
	}
}

func (w *world) hit(key, what string) {
	for _, h := range w.hits {
		if h.key == key {
			return
		}
	}
	w.hits = append(w.hits, hit{key, what})
}

// peerWrite sends one command byte from the peer to the session's read handler. Over a pipe the byte is either
// taken by a handler blocked in its read, or — nobody reads — never: that is decided at quiescence, not by a clock.
func (w *world) peerWrite(cs *cstate, b byte) bool {
	if cs.peerClosedBy {
		return false
	}
	if w.tcp {
		_ = cs.peer.SetWriteDeadline(time.Now().Add(ceiling))
		_, err := cs.peer.Write([]byte{b})
		return err == nil
	}
	done := make(chan error, 1)
	go func() {
		_, err := cs.peer.Write([]byte{b})
		done <- err
	}()
	w.quiesce()
	select {
	case err := <-done:
		return err == nil
	default:
	}
	_ = cs.peer.SetWriteDeadline(past) // still blocked at quiescence: undeliverable
	<-done
	_ = cs.peer.SetWriteDeadline(time.Time{})
	return false
}

func (w *world) op(f []string) string {
	three := f[0] == "send" || f[0] == "wpart" || f[0] == "wtemp" || f[0] == "setv" || f[0] == "sendn"
	if len(f) < 2 || three != (len(f) == 3) || len(f) > 3 {
		return "bad-op"
	}
	k, err := strconv.Atoi(f[1])
	if err != nil || k < 0 || k >= len(w.sess) || f[1] != strconv.Itoa(k) {
		return "bad-op"
	}
	cs := w.sess[k]
	ex0, rd0, buf0, _, s := cs.snapshot()
	wasOver := ex0 > 0
	if w.echo && f[0] != "pdata" && f[0] != "herr" && f[0] != "pclose" && f[0] != "start" {
		return "bad-op"
	}
	// over, and (tcp) the client has seen the server side close
	endedCond := func() bool {
		if !w.ended(cs, loopsOf()) {
			return false
		}
		_, _, _, eof, _ := cs.snapshot()
		return eof || cs.peerClosedBy || cs.fc != nil
	}
	ret := "ok"
	switch f[0] {
	case "send":
		if len(f) != 3 {
			return "bad-op"
		}
		var bs []byte
		if f[2] != "-" {
			if len(f[2])%2 != 0 || strings.ToLower(f[2]) != f[2] {
				return "bad-op"
			}
			for i := 0; i < len(f[2]); i += 2 {
				v, err := strconv.ParseUint(f[2][i:i+2], 16, 8)
				if err != nil {
					return "bad-op"
				}
				bs = append(bs, byte(v))
			}
		}
		var e error
		if ok, pan := w.call("Session.Send", func() { e = s.Send(bs) }); !ok {
			ret = "parked"
		} else if pan != "" {
			return "panic:" + pan
		} else if e != nil {
			ret = "closed"
		} else {
			cs.accepted = append(cs.accepted, bs)
			if len(bs) == 0 && cs.emptyAt < 0 {
				cs.emptyAt = len(cs.accepted) - 1
			}
		}
		want := len(buf0) + len(bs)
		w.settle(func() bool {
			if ret != "ok" || len(bs) == 0 {
				return true
			}
			_, _, b, _, _ := cs.snapshot()
			return len(b) >= want || endedCond()
		})
	case "sendn":
		// a backlog: n one-byte Sends in a row (payload i = the byte i mod 250 + 1)
		if w.echo {
			return "bad-op"
		}
		n, err := strconv.Atoi(f[2])
		if err != nil || n < 1 || n > 400 || strconv.Itoa(n) != f[2] {
			return "bad-op"
		}
		acc := 0
		for i := 0; i < n; i++ {
			bs := []byte{byte(i%250 + 1)}
			var e error
			ok, pan := w.call("Session.Send", func() { e = s.Send(bs) })
			if !ok {
				ret = "parked"
				break
			}
			if pan != "" {
				return "panic:" + pan
			}
			if e == nil {
				cs.accepted = append(cs.accepted, bs)
				acc++
			}
			// every Send is an event of its own: the session reacts before the next one
			wantI := len(buf0) + acc
			w.settle(func() bool {
				_, _, b, _, _ := cs.snapshot()
				return len(b) >= wantI || endedCond()
			})
			if w.dead != "" {
				break
			}
		}
		if ret == "ok" {
			ret = "ok" + strconv.Itoa(acc)
		}
		want := len(buf0) + acc
		w.settle(func() bool {
			_, _, b, _, _ := cs.snapshot()
			return len(b) >= want || endedCond()
		})
	case "close":
		if len(f) != 2 {
			return "bad-op"
		}
		if ok, pan := w.call("Session.Close", func() { s.Close() }); !ok {
			ret = "parked"
		} else if pan != "" {
			return "panic:" + pan
		}
		cs.closedLocal = true
		w.settle(endedCond)
	case "start":
		if ok, pan := w.call("Start", func() {
			if w.echo {
				cs.e.Start()
			} else {
				s.Start()
			}
		}); !ok {
			ret = "parked"
		} else if pan != "" {
			return "panic:" + pan
		}
		w.settle(func() bool { return true })
	case "setv":
		// the application attaches a value to the session (Session.Set): every log line of the session then goes
		// through absSessionInfo with that value — a plain one, one that implements IKeyZap, a typed nil IKeyZap
		if w.echo {
			return "bad-op"
		}
		if f[2] != "str" && f[2] != "kz" && f[2] != "nilkz" {
			return "bad-op"
		}
		// Set stores into an atomic.Value: a second value of another dynamic type panics in the CALLER (contract of
		// atomic.Value, not of the session): one kind of value per session (kz and nilkz share their type)
		kind := f[2]
		if kind == "nilkz" {
			kind = "kz"
		}
		if cs.valueKind != "" && cs.valueKind != kind {
			w.settle(func() bool { return true })
			break
		}
		cs.valueKind = kind
		if ok, pan := w.call("Session.Set", func() {
			switch f[2] {
			case "str":
				s.Set("user-42")
			case "kz":
				s.Set(&keyZapValue{id: 42})
			case "nilkz":
				s.Set((*keyZapValue)(nil))
			}
		}); !ok {
			ret = "parked"
		} else if pan != "" {
			return "panic:" + pan
		}
		if s.Get() == nil {
			w.hit("C16:sess:value-lost", "Session.Get() returns nil after Session.Set(v)")
		}
		w.settle(func() bool { return true })
	case "uh":
		// replace the session's handler by another one with the same behaviour (exercises UpdateHandler and the
		// `s.rh != nil` branches of loopReceive and quit)
		if ok, pan := w.call("Session.UpdateHandler", func() { s.UpdateHandler(&handler{registry: w.h.registry, tag: 2}) }); !ok {
			ret = "parked"
		} else if pan != "" {
			return "panic:" + pan
		}
		w.settle(func() bool { return true })
	case "xpanic", "xblock":
		cs.mu.Lock()
		if f[0] == "xpanic" {
			cs.exitPanics = true
		} else {
			cs.exitBlocks = true
		}
		cs.mu.Unlock()
		cs.exitFaulty = true
		w.broken = true
		w.settle(func() bool { return true })
	case "pclose":
		_ = cs.peer.Close()
		cs.peerClosedBy = true
		w.settle(endedCond)
	case "drain":
		cs.mu.Lock()
		cs.hold = false
		_ = cs.peer.SetReadDeadline(time.Time{})
		cs.cond.Broadcast()
		cs.mu.Unlock()
		w.settle(func() bool { return true })
	case "hold":
		if w.tcp {
			return "bad-op"
		}
		cs.mu.Lock()
		cs.hold = true
		_ = cs.peer.SetReadDeadline(past)
		cs.mu.Unlock()
		w.settle(nil)
	case "pdata":
		ok := w.peerWrite(cs, 'd')
		w.settle(func() bool { _, rd, _, _, _ := cs.snapshot(); return !ok || wasOver || rd > rd0 || endedCond() })
	case "herr", "hpanic", "hpanicnil":
		b := map[string]byte{"herr": 'e', "hpanic": 'p', "hpanicnil": 'n'}[f[0]]
		if w.peerWrite(cs, b) && !wasOver {
			cs.readKilled = true
		}
		w.settle(func() bool { return cs.peerClosedBy || endedCond() })
	case "cerr":
		if w.tcp {
			return "bad-op"
		}
		cs.fc.mu.Lock()
		cs.fc.closeErr = true
		cs.fc.mu.Unlock()
		w.settle(nil)
	case "wpart", "wtemp":
		// one Write — the one blocked right now, or else the next one — hands n bytes (fewer than it was given) to the
		// peer and then fails: with the timeout error of an expired write deadline (wpart) or with another temporary
		// error (wtemp). Any later Write would work again: the session must not try one.
		if w.tcp || w.echo {
			return "bad-op"
		}
		n, err := strconv.Atoi(f[2])
		if err != nil || n < 0 || strconv.Itoa(n) != f[2] || n > 1<<20 {
			return "bad-op"
		}
		fc := cs.fc
		fc.mu.Lock()
		already := cs.writeFault // a write fault is armed already: the first one decides
		if !already {
			fc.partN = n
			if f[0] == "wpart" {
				fc.partErr = os.ErrDeadlineExceeded
			} else {
				fc.partErr = tempErr{}
			}
		}
		fc.mu.Unlock()
		if !already && atomic.LoadInt32(&fc.inWrite) > 0 {
			_ = fc.Conn.SetWriteDeadline(past) // wake the blocked Write; the session sets a fresh deadline per attempt
		}
		cs.writeFault = true
		w.settle(nil)
	case "rerr", "rto", "rdl", "werr", "wto", "wdl":
		if w.tcp {
			return "bad-op"
		}
		fc := cs.fc
		if cs.writeFault && (f[0] == "werr" || f[0] == "wto" || f[0] == "wdl") {
			w.settle(nil) // a write fault is armed already: the first one decides
			break
		}
		fc.mu.Lock()
		switch f[0] {
		case "rerr":
			fc.injR, fc.keepRDL = true, true
			_ = fc.Conn.SetReadDeadline(past)
		case "rto":
			fc.keepRDL = true
			_ = fc.Conn.SetReadDeadline(past)
		case "rdl":
			fc.injRDL = true
		case "werr":
			fc.injW, fc.keepWDL = true, true
			_ = fc.Conn.SetWriteDeadline(past)
		case "wto":
			fc.keepWDL = true
			_ = fc.Conn.SetWriteDeadline(past)
		case "wdl":
			fc.injWDL, fc.injW, fc.keepWDL = true, true, true
			_ = fc.Conn.SetWriteDeadline(past)
		}
		fc.mu.Unlock()
		switch f[0] {
		case "rerr", "rto":
			if !wasOver {
				cs.readKilled = true
			}
		case "rdl":
			if w.peerWrite(cs, 'd') && !wasOver {
				cs.readKilled = true
			}
		default:
			cs.writeFault = true
		}
		w.settle(nil)
	default:
		return "bad-op"
	}
	return ret
}

func hexOf(b []byte) string {
	if len(b) == 0 {
		return "-"
	}
	return fmt.Sprintf("%x", b)
}

// observe prints the P-observables of the world and runs the per-observation monitors.
func (w *world) observe(final bool) string {
	loops := loopsOf()
	n := w.count()
	var sb strings.Builder
	if w.noCount {
		fmt.Fprintf(&sb, " n=? rej=%d", w.rej)
	} else {
		fmt.Fprintf(&sb, " n=%d rej=%d", n, w.rej)
	}
	started, over := 0, 0
	for k, cs := range w.sess {
		ex, rd, buf, eof, s := cs.snapshot()
		l := loops[fmt.Sprintf("%p", s)]
		if w.echo {
			l = 0
			cs.mu.Lock()
			if cs.running {
				l = 1
			}
			cs.mu.Unlock()
		}
		closes := 0
		if cs.fc != nil {
			closes = int(atomic.LoadInt32(&cs.fc.closes))
		} else if eof && !cs.peerClosedBy {
			closes = 1
		} else if cs.peerClosedBy && ex > 0 {
			closes = 1 // tcp: after the client closed its end the server-side Close is not visible to it
		}
		fmt.Fprintf(&sb, " / %d:x%d,c%d,l%d,d=%s,rd=%d", k, ex, closes, l, hexOf(buf), rd)
		started++
		if ex > 0 {
			over++
		}
		if !cs.exitFaulty {
			w.monitorSession(k, cs, ex, closes, l, buf, final)
		}
	}
	if w.noCount || w.broken {
		return sb.String() // no ConnCount to look at / an assumption of the property was broken on purpose
	}
	if n != started-over {
		w.hit("C16:count:unbalanced", fmt.Sprintf("ConnCount()=%d with %d sessions started and %d exited (expected %d)", n, started, over, started-over))
	}
	if w.max >= 0 && n > w.max {
		w.hit("C16:accept:count-exceeds-max", fmt.Sprintf("ConnCount()=%d > maxConn=%d", n, w.max))
	}
	if w.max < 0 && n != 0 {
		w.hit("C16:accept:count-exceeds-max", fmt.Sprintf("ConnCount()=%d with a negative maxConn=%d (nothing may be admitted)", n, w.max))
	}
	return sb.String()
}

func flatten(items [][]byte) []byte {
	var out []byte
	for _, it := range items {
		out = append(out, it...)
	}
	return out
}

// monitorSession restates the property on what the harness can see of one session, independently of the Lean model.
func (w *world) monitorSession(k int, cs *cstate, exits, closes, loops int, got []byte, final bool) {
	all := flatten(cs.accepted)
	pendingBytes := len(got) < len(all)
	if exits > 1 {
		w.hit("C16:quit:onexit-more-than-once", fmt.Sprintf("session %d: OnExit ran %d times", k, exits))
	}
	if !w.echo && (len(got) > len(all) || string(all[:len(got)]) != string(got)) {
		w.hit("C16:flush:corrupt-or-reordered", fmt.Sprintf("session %d: peer read %x, accepted by Send %x", k, got, all))
	}
	cs.mu.Lock()
	holding := cs.hold
	cs.mu.Unlock()
	// is a terminating event in effect that the session must have reacted to by now?
	var why []string
	if cs.peerClosedBy {
		why = append(why, "peer close")
	}
	if cs.readKilled {
		why = append(why, "read error/timeout/handler error/panic")
	}
	if w.mode == "rt" || w.mode == "pubx" {
		why = append(why, "read timeout (real, 60ms)")
	}
	if cs.closedLocal && (!holding || !pendingBytes) {
		why = append(why, "local Close")
	}
	if cs.writeFault && pendingBytes {
		why = append(why, "write error/timeout")
	}
	if w.mode == "wt" && holding && pendingBytes {
		why = append(why, "write timeout (real, 250ms)")
	}
	if len(why) > 0 {
		cause := strings.Join(why, "+")
		if exits == 0 && closes < 1 && loops > 0 {
			// one cause, one line: the session simply did not end
			w.hit("C16:sess:not-ended-after-terminating-event", fmt.Sprintf("session %d after %s: OnExit did not run, the connection is not closed, %d loop goroutine(s) still running", k, cause, loops))
			return
		}
		if exits != 1 {
			w.hit("C16:quit:onexit-not-once", fmt.Sprintf("session %d after %s: OnExit ran %d times", k, cause, exits))
		}
		if closes < 1 {
			w.hit("C16:quit:conn-not-closed", fmt.Sprintf("session %d after %s: connection not closed", k, cause))
		}
		if loops != 0 {
			w.hit("C16:loops:goroutine-left", fmt.Sprintf("session %d after %s: %d loop goroutine(s) still running", k, cause, loops))
		}
	}
	// flush: the only terminating event is a local Close, the peer reads
	if cs.closedLocal && !cs.peerClosedBy && !cs.readKilled && !cs.writeFault && w.mode != "rt" && w.mode != "wt" && w.mode != "pubx" && !w.echo && !holding && (closes > 0 || final) {
		if len(got) < len(all) && string(all[:len(got)]) == string(got) {
			key := "C16:flush:accepted-bytes-lost"
			if cs.emptyAt >= 0 && len(got) >= len(flatten(cs.accepted[:cs.emptyAt])) {
				key = "C16:loopSend:empty-send-discards-later-sends"
			}
			w.hit(key, fmt.Sprintf("session %d: Send accepted %x before the local Close, the reading peer got only %x before the connection closed", k, all, got))
		}
	}
	if cs.fc != nil {
		if n := atomic.LoadInt32(&cs.fc.badRDL); n > 0 {
			w.hit("C16:loopReceive:read-deadline-not-configured-timeout", fmt.Sprintf("session %d: %d SetReadDeadline call(s) not at now+readTimeout", k, n))
		}
		if n := atomic.LoadInt32(&cs.fc.badWDL); n > 0 {
			w.hit("C16:send:write-deadline-not-configured-timeout", fmt.Sprintf("session %d: %d SetWriteDeadline call(s) not at now+writeTimeout", k, n))
		}
		cs.fc.mu.Lock()
		nw := cs.fc.noWDL
		cs.fc.mu.Unlock()
		if nw > 0 {
			w.hit("C16:send:write-without-deadline", fmt.Sprintf("session %d: %d Write call(s) without a fresh write deadline", k, nw))
		}
		cs.mu.Lock()
		ent := cs.entered
		cs.mu.Unlock()
		if int(atomic.LoadInt32(&cs.fc.rdlCalls)) < ent {
			w.hit("C16:loopReceive:read-without-deadline", fmt.Sprintf("session %d: handler Read entered %d times, %d read deadlines set", k, ent, atomic.LoadInt32(&cs.fc.rdlCalls)))
		}
	}
}

// destroy ends everything the case created so that no goroutine of it survives into the next case.
func (w *world) destroy() {
	if w.pl != nil {
		_ = w.pl.Close()
	}
	if w.tl != nil {
		_ = w.tl.Close()
	}
	if w.tl == nil && w.pl == nil && w.srv != nil && w.dead == "" {
		_ = w.srv.Close() // public path: the server owns its listener
	}
	for _, cs := range w.all {
		close(cs.release)
		if cs.fc != nil {
			_ = cs.fc.Conn.Close()
		}
		_ = cs.peer.Close()
		cs.mu.Lock()
		cs.hold = false
		cs.cond.Broadcast()
		s := cs.s
		cs.mu.Unlock()
		if s != nil {
			go s.Close() // never from the harness goroutine: a Close that blocks must not hang the run
		}
	}
	select {
	case <-w.srvErr:
	case <-time.After(ceiling):
	}
	if w.prevLogger != nil {
		// SetDefaultLogger adds one caller skip to what it is given: take one off so that the restored logger is the old one
		restored := *w.prevLogger // (the same struct copy SetDefaultLogger itself makes; the level switch is shared)
		restored.Logger = w.prevLogger.Logger.WithOptions(zap.AddCallerSkip(-1))
		ulog.SetDefaultLogger(&restored)
		w.prevLogger = nil
	}
	t0 := time.Now()
	deadline := t0.Add(ceiling)
	for time.Now().Before(deadline) {
		busy := false
		for _, cs := range w.all {
			cs.mu.Lock()
			if !cs.drainOut {
				busy = true
			}
			cs.mu.Unlock()
		}
		if !busy {
			if w.tcp {
				// loops that are still there although nothing has been running for a while are stuck: they will not go
				if len(loopsOf()) == 0 || (time.Since(t0) > 300*time.Millisecond && quietNow()) {
					break
				}
			} else if w.spin || settleWithin(2*time.Second) == nil {
				break
			}
		}
		time.Sleep(200 * time.Microsecond)
	}
}

// keyZapValue is an application value that knows how to describe itself in a log line (IKeyZap), also when nil
type keyZapValue struct{ id int }

func (v *keyZapValue) KeyZaps(ext ...zap.Field) []zap.Field {
	if v == nil {
		return append(ext, zap.String("user", "none"))
	}
	return append(ext, zap.Int("user", v.id))
}

// nopConn is a connection nobody talks on: the accept loop can only close it
type nopConn struct{ closed *int32 }

func (c nopConn) Read([]byte) (int, error)         { return 0, io.EOF }
func (c nopConn) Write(b []byte) (int, error)      { return len(b), nil }
func (c nopConn) Close() error                     { atomic.AddInt32(c.closed, 1); return nil }
func (c nopConn) LocalAddr() net.Addr              { return pipeAddr("soak") }
func (c nopConn) RemoteAddr() net.Addr             { return pipeAddr("soak") }
func (c nopConn) SetDeadline(time.Time) error      { return nil }
func (c nopConn) SetReadDeadline(time.Time) error  { return nil }
func (c nopConn) SetWriteDeadline(time.Time) error { return nil }

// soak: n surplus connections in a row on a full server (a long-running server's history: one error-level log line
// per surplus connection), without observing in between. Only when the count has reached the maximum.
func (w *world) soak(n int) string {
	if w.pl == nil || w.noCount {
		return "bad-op"
	}
	if c := w.count(); w.max >= 0 && c < w.max {
		return "bad-op"
	}
	if w.stopped {
		return "lost"
	}
	var closed int32
	sent := 0
	for i := 0; i < n; i++ {
		select {
		case w.pl.ch <- nopConn{&closed}:
			sent++
		case e := <-w.srvErr:
			w.srvErr <- e
			w.stopped = true
		case <-time.After(ceiling):
			w.stopped = true
		}
		if w.stopped {
			break
		}
	}
	w.settle(nil)
	got := int(atomic.LoadInt32(&closed))
	w.rej += got
	if p := w.acceptPanic(); p != "" {
		w.stopped = true
		w.hit("C16:loopAccept:panic-kills-accept-loop", fmt.Sprintf("the accept loop died after %d of %d surplus connections: panic: %s", got, n, p))
		return "panic:accept-loop"
	}
	if got != n {
		w.hit("C16:accept:surplus-not-closed", fmt.Sprintf("ConnCount()=%d >= maxConn=%d: of %d surplus connections in a row only %d were closed", w.count(), w.max, n, got))
	}
	return "rej" + strconv.Itoa(got)
}

// acceptError makes the listener's Accept return an error: a temporary one (the loop backs off and retries, up to
// acceptMaxRetry consecutive times) or a permanent one (the loop returns). Result: whether the loop still runs.
func (w *world) acceptError(permanent bool) string {
	if w.pl == nil {
		return "bad-op"
	}
	if !w.stopped {
		var e error = tempErr{}
		if permanent {
			e = errAcceptFatal
		}
		select {
		case w.pl.errs <- e:
		case <-time.After(ceiling):
		}
		w.settle(nil)
		select {
		case e := <-w.srvErr:
			w.srvErr <- e
			w.stopped = true
		default:
		}
	}
	if w.stopped {
		return "stop"
	}
	return "run"
}
