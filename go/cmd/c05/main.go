// Command c05: extractor and correspondence runner for property C05 (TTL caches: cache/ttlmem.go, cache/ttlrds.go).
package main

import (
	"bufio"
	"context"
	"errors"
	"fmt"
	"os"
	"os/exec"
	"path/filepath"
	"sort"
	"strconv"
	"strings"
	"sync"
	"sync/atomic"
	"syscall"
	"time"

	"github.com/pinealctx/neptune/cache"

	"nvharness/lib/c05fake"
	"nvharness/lib/corr"
	"nvharness/lib/go2lean"
	"nvharness/lib/gofacts"
	_ "nvharness/lib/quiet"
	"nvharness/lib/rng"
)

func main() {
	if len(os.Args) < 2 {
		fmt.Fprintln(os.Stderr, "usage: c05 extract <repo> <leanDir> | corr …")
		os.Exit(2)
	}
	switch os.Args[1] {
	case "extract":
		extract(os.Args[2], os.Args[3])
	case "corr":
		corr.Main(spec(), os.Args[2:])
	case "stress":
		os.Exit(stressChild(os.Args[2:]))
	case "worker":
		workerMain()
	case "smoke":
		os.Exit(smokeChild())
	case "bodies": // maintenance: print the normalised bodies the whole-body facts are compared with
		mem := gofacts.MustLoad(os.Args[2], "cache/ttlmem.go")
		rds := gofacts.MustLoad(os.Args[2], "cache/ttlrds.go")
		for _, m := range []string{"Set", "Get", "Remove", "Clear", "remove", "removeTail"} {
			fmt.Printf("mem.%s: %s\n", m, mem.Body("ttlMemCache", m))
		}
		for _, m := range []string{"Remove", "Clear", "key"} {
			fmt.Printf("rds.%s: %s\n", m, rds.Body("ttlRdsCache", m))
		}
	default:
		os.Exit(2)
	}
}

// ---------------------------------------------------------------- extract

const durBare = "time.Duration(o.ttl)"

// normDur replaces the duration expression built from the ttl by <D> and reports (#sites, #sites multiplied by time.Second).
func normDur(s string) (string, int, int) {
	sec := 0
	for _, f := range []string{durBare + " * time.Second", durBare + "*time.Second", "time.Second * " + durBare, "time.Second*" + durBare} {
		sec += strings.Count(s, f)
		s = strings.ReplaceAll(s, f, "<D>")
	}
	bare := strings.Count(s, durBare)
	s = strings.ReplaceAll(s, durBare, "<D>")
	return s, bare + sec, sec
}

func extract(repo, leanDir string) {
	mem := gofacts.MustLoad(repo, "cache/ttlmem.go")
	rds := gofacts.MustLoad(repo, "cache/ttlrds.go")
	has, before := gofacts.Has, gofacts.Before

	// ---- lock coverage of the four public methods
	locks := true
	for _, m := range []string{"Set", "Get", "Remove", "Clear"} {
		fd := mem.Func("ttlMemCache", m)
		body := mem.Body("ttlMemCache", m)
		if mem.LockCovered(fd, "t.Lock()", "t.Unlock()") != "defer" || !strings.HasPrefix(body, "{ t.Lock() defer t.Unlock() ") {
			locks = false
		}
	}
	// whole bodies, not substrings: nothing may stand between the lock prefix and the delegated call
	locks = locks && mem.Body("ttlMemCache", "Set") == "{ t.Lock() defer t.Unlock() return t.set(key, value, fns...) }" &&
		mem.Body("ttlMemCache", "Get") == "{ t.Lock() defer t.Unlock() return t.get(key, fns...) }"

	// ---- get()
	get := mem.Body("ttlMemCache", "get")
	const lookupGet = "var ele, ok = t.eleHash[key] if !ok { return nil, ErrTTLKeyNotFound } var node = ele.Value.(*ttlNode)"
	const guard = "if now() > node.deadline { t.remove(ele, node) return node.value, ErrTTLKeyNotFound }"
	const rmAfter = "if o.removeAfterGet { t.remove(ele, node) return node.value, nil }"
	const upd = "if o.updateTTL { node.deadline = deadline(o.ttl) } t.eleList.MoveToFront(ele) return node.value, nil }"
	getGuard := has(get, lookupGet+" "+guard)
	getRemove := has(get, guard+" "+rmAfter)
	getUpdate := strings.HasSuffix(get, rmAfter+" "+upd)

	// ---- set()
	set := mem.Body("ttlMemCache", "set")
	const lookupSet = "var ele, ok = t.eleHash[key]"
	const existing = "if ok { if o.mustNotExist { return ErrTTLKeyExists } t.eleList.MoveToFront(ele) var node = ele.Value.(*ttlNode) node.value = value if !o.keepTTL { node.deadline = deadline(o.ttl) } return nil }"
	const newNode = "var node = &ttlNode{key: key, value: value, deadline: deadline(o.ttl)} ele = t.eleList.PushFront(node)"
	const evict = "if t.eleList.Len() > t.size { t.removeTail() }"
	const index = "t.eleHash[key] = ele"
	setExisting := has(set, existing+" "+newNode)
	setExpiry := "unknown"
	if i, j := strings.Index(set, lookupSet), strings.Index(set, existing); i >= 0 && j > i {
		pre := strings.TrimSpace(set[i+len(lookupSet) : j])
		switch pre {
		case "":
			if !has(set, "now()") {
				setExpiry = "ignore"
			}
		case "if ok && now() > ele.Value.(*ttlNode).deadline { t.remove(ele, ele.Value.(*ttlNode)) ok = false }",
			"if ok { if now() > ele.Value.(*ttlNode).deadline { t.remove(ele, ele.Value.(*ttlNode)) ok = false } }",
			"if ok { var node = ele.Value.(*ttlNode) if now() > node.deadline { t.remove(ele, node) ok = false } }":
			setExpiry = "purge"
		}
	}
	indexOrder := "unknown"
	tail := gofacts.After(set, newNode)
	switch strings.TrimSpace(tail) {
	case evict + " " + index + " return nil }":
		indexOrder = "afterEvict"
	case index + " " + evict + " return nil }":
		indexOrder = "beforeEvict"
	}
	evictOne := has(tail, evict) && mem.Body("ttlMemCache", "removeTail") ==
		"{ var ele = t.eleList.Back() if ele == nil { return nil } var node = ele.Value.(*ttlNode) t.remove(ele, node) return node }"

	removeBoth := mem.Body("ttlMemCache", "remove") == "{ if ele != nil { t.eleList.Remove(ele) delete(t.eleHash, node.key) } }" &&
		mem.Body("ttlMemCache", "Remove") == "{ t.Lock() defer t.Unlock() var ele, ok = t.eleHash[key] if ok { t.remove(ele, ele.Value.(*ttlNode)) } return nil }" &&
		mem.Body("ttlMemCache", "Clear") == "{ t.Lock() defer t.Unlock() t.eleHash = make(map[string]*list.Element) t.eleList.Init() }"

	optDefaults := has(set, "{ var o = &setOption{ttl: t.ttl} for _, fn := range fns { fn(o) } "+lookupSet) &&
		has(get, "{ var o = &getOption{ttl: t.ttl} for _, fn := range fns { fn(o) } var ele, ok") &&
		has(mem.Body("", "WithUpdateTTL"), "option.updateTTL = true if ttl != 0 { option.ttl = ttl }") &&
		has(mem.Body("", "WithTTL"), "option.ttl = ttl") &&
		has(mem.Body("", "WithMustNotExist"), "option.mustNotExist = true") &&
		has(mem.Body("", "WithKeepTTL"), "option.keepTTL = true") &&
		has(mem.Body("", "WithRemoveAfterGet"), "option.removeAfterGet = true")

	deadlineShape := mem.Body("", "deadline") == "{ if ttl <= 0 { return math.MaxInt64 } return now() + ttl }"

	// ---- the `deadline` kernel, translated
	kernel := ""
	kerr := ""
	if p, err := go2lean.LoadPkg(repo, "cache"); err != nil {
		kerr = err.Error()
	} else if errs := p.TranslateAll("deadline"); len(errs) > 0 {
		kerr = strings.Join(go2lean.SortedErrs(errs), "; ")
	} else {
		kernel = p.Emit()
	}

	// ---- ttlrds.go
	rset, n1, s1 := normDur(rds.Body("ttlRdsCache", "Set"))
	rget, n2, s2 := normDur(rds.Body("ttlRdsCache", "Get"))
	unit := "unknown"
	switch {
	case n1 == 2 && n2 == 1 && s1+s2 == 0:
		unit = "nanoseconds"
	case n1 == 2 && n2 == 1 && s1+s2 == 3:
		unit = "seconds"
	}
	rdsCmds := has(rset, "{ var o = &setOption{ttl: t.ttl} for _, fn := range fns { fn(o) } key = t.key(key) if o.mustNotExist { var ok, err = t.cmd.SetNX(ctx, key, value, <D>).Result() if err != nil { return err } if !ok { return ErrTTLKeyExists } return nil } var ex = <D> if o.keepTTL { ex = redis.KeepTTL } var _, err = t.cmd.Set(ctx, key, value, ex).Result() return err }") &&
		has(rget, "{ var o = &getOption{ttl: t.ttl} for _, fn := range fns { fn(o) } key = t.key(key) var getFn = t.cmd.Get if o.removeAfterGet { getFn = t.cmd.GetDel } var v, err = getFn(ctx, key).Bytes() if err != nil { if errors.Is(err, redis.Nil) { return nil, ErrTTLKeyNotFound } return nil, err } if o.updateTTL { err = t.cmd.Expire(ctx, key, <D>).Err() if err != nil { return nil, err } } return v, nil }") &&
		rds.Body("ttlRdsCache", "Remove") == "{ key = t.key(key) var _, err = t.cmd.Del(ctx, key).Result() return err }" &&
		rds.Body("ttlRdsCache", "key") == "{ return t.prefix + k }" &&
		before(rget, "getFn(ctx, key).Bytes()", "t.cmd.Expire(")

	// Clear: one SCAN whose *iterator* (it follows the cursor until 0) drives one DEL per key
	rclear := rds.Body("ttlRdsCache", "Clear")
	rdsClear := rclear == "{ var scanCmd = t.cmd.Scan(ctx, 0, t.prefix+\"*\", 0) var err = scanCmd.Err() if err != nil { ulog.Error(\"ttlRdsCache.Clear.Scan.error\", zap.String(\"prefix\", t.prefix), zap.Error(err)) return } var iter = scanCmd.Iterator() for iter.Next(ctx) { err = t.cmd.Del(ctx, iter.Val()).Err() if err != nil { ulog.Error(\"ttlRdsCache.Clear.Del.error\", zap.String(\"key\", iter.Val()), zap.Error(err)) return } } }" &&
		strings.HasPrefix(rclear, "{ var scanCmd = t.cmd.Scan(ctx, 0, t.prefix+\"*\", 0) var err = scanCmd.Err() if err != nil {") &&
		has(rclear, "return } var iter = scanCmd.Iterator() for iter.Next(ctx) { err = t.cmd.Del(ctx, iter.Val()).Err() if err != nil {") &&
		strings.Count(rclear, "t.cmd.") == 2 && strings.Count(rclear, "scanCmd.") == 2
	b := gofacts.LeanBool
	var sb strings.Builder
	sb.WriteString("import Nv.Model.C05\nset_option linter.unusedVariables false\n")
	sb.WriteString("/-! GENERATED by `c05 extract` from cache/ttlmem.go + cache/ttlrds.go — do not edit. -/\nnamespace Nv.Gen.C05\n")
	fmt.Fprintf(&sb, "def cfg : Nv.C05.Cfg := ⟨.%s, .%s, .%s⟩\n", setExpiry, indexOrder, unit)
	fmt.Fprintf(&sb, "def facts : Nv.C05.Facts := ⟨%s, %s, %s, %s, %s, %s, %s, %s, %s, %s, %s⟩\n", b(locks), b(getGuard), b(getRemove),
		b(getUpdate), b(setExisting), b(evictOne), b(removeBoth), b(optDefaults), b(deadlineShape && kernel != ""), b(rdsCmds), b(rdsClear))
	if kernel != "" {
		sb.WriteString(kernel)
	} else {
		sb.WriteString("-- kernel `deadline` not translatable: " + strings.ReplaceAll(kerr, "\n", " ") + "\n")
	}
	sb.WriteString("end Nv.Gen.C05\n")
	if err := gofacts.WriteIfChanged(filepath.Join(leanDir, "Nv/Gen/C05.lean"), sb.String()); err != nil {
		fmt.Fprintln(os.Stderr, err)
		os.Exit(2)
	}
	fmt.Printf("extract C05: setExpiry=%s indexOrder=%s rdsUnit=%s facts(locks,getGuard,getRemove,getUpdate,setExisting,evictOne,removeBoth,optDefaults,deadline,rdsCmds,rdsClearIterates)=%v,%v,%v,%v,%v,%v,%v,%v,%v,%v,%v kernel=%v\n",
		setExpiry, indexOrder, unit, locks, getGuard, getRemove, getUpdate, setExisting, evictOne, removeBoth, optDefaults, deadlineShape, rdsCmds, rdsClear, kernel != "")
}

// ---------------------------------------------------------------- running a script on the real code

type world struct {
	mode  string // mem | rds | both
	size  int
	dttl  int64
	clock int64 // unix ms, atomic
	mem   cache.TTLCache
	rds   cache.TTLCache
	frg   cache.TTLCache // a second redis-backed cache on the same server under another prefix (Clear must not touch it)
	fake  *c05fake.Server
	close func()
	mon   *monitor
}

var ctx = context.Background()

func (w *world) nowMs() int64 { return atomic.LoadInt64(&w.clock) }

func newWorld(mode string, size int, dttl, clock int64) *world {
	w := &world{mode: mode, size: size, dttl: dttl, clock: clock}
	restore := cache.VerifSetNow(func() int64 { return w.nowMs() / 1000 })
	w.mem = cache.NewTTLMemCache(size, dttl)
	w.close = restore
	if mode != "mem" {
		w.fake = c05fake.New(w.nowMs)
		cl := w.fake.Client()
		w.rds = cache.NewTTLRdsCache(cl, "p:", dttl)
		// the other prefix sorts before ("o:") or after ("q:") this cache's keys in the keyspace, chosen by the start clock
		fp := "q:"
		if clock%2 == 0 {
			fp = "o:"
		}
		w.frg = cache.NewTTLRdsCache(cl, fp, 0)
		w.close = func() { restore(); _ = cl.Close() }
	}
	w.mon = newMonitor(w)
	return w
}

func showErr(err error) string {
	switch {
	case err == nil:
		return "ok"
	case errors.Is(err, cache.ErrTTLKeyExists):
		return "exists"
	case errors.Is(err, cache.ErrTTLKeyNotFound):
		return "notfound"
	}
	return "err"
}

func showGet(v []byte, err error) string {
	if err != nil {
		return showErr(err)
	}
	return "val:" + decVal(v)
}

// The oracle only needs the IDENTITY of keys and values, so script tokens are mapped to real strings here:
// keys  k7000..k7009 -> 71-byte keys that share their first 69 bytes; k8000 -> "" (empty key); k8001.. -> keys with
//
//	glob characters, blanks, a slash, 300 bytes; every other k<n> -> "k<n>";
//
// values 900 -> empty value, 902 -> 70 000 bytes; every other <n> -> its decimal text.
func realKey(tok string) string {
	n, err := strconv.Atoi(strings.TrimPrefix(tok, "k"))
	if err != nil {
		return tok
	}
	switch {
	case n >= 7000 && n <= 7009:
		return "session:" + strings.Repeat("x", 60) + ":" + fmt.Sprintf("%02d", n-7000)
	case n == 8000:
		return ""
	case n == 8001:
		return "a*b"
	case n == 8002:
		return "a?b"
	case n == 8003:
		return "a[b]c"
	case n == 8004:
		return "with blank\tand tab"
	case n == 8005:
		return "dir/sub/leaf"
	case n == 8006:
		return strings.Repeat("long-key-", 33) + "end"
	case n == 8007:
		return "*"
	}
	return tok
}

func encVal(tok string) []byte {
	switch tok {
	case "900":
		return []byte{}
	case "902":
		return []byte(strings.Repeat("x", 70000) + "902")
	}
	return []byte(tok)
}

func decVal(b []byte) string {
	switch {
	case len(b) == 0:
		return "900"
	case len(b) > 1000:
		return strings.TrimLeft(string(b), "x")
	}
	return string(b)
}

var cancelledCtx = func() context.Context {
	c, cancel := context.WithCancel(context.Background())
	cancel()
	return c
}()

func parseKey(s string) bool {
	if len(s) < 2 || s[0] != 'k' {
		return false
	}
	return isNat(s[1:])
}

func isNat(s string) bool {
	if s == "" || len(s) > 15 {
		return false
	}
	for _, c := range s {
		if c < '0' || c > '9' {
			return false
		}
	}
	return true
}

func parseOptInt(s string) (set bool, v int64, ok bool) {
	if s == "-" {
		return false, 0, true
	}
	if len(s) > 16 {
		return false, 0, false
	}
	body := s
	if strings.HasPrefix(body, "-") {
		body = body[1:]
	}
	if !isNat(body) {
		return false, 0, false
	}
	n, err := strconv.ParseInt(s, 10, 64)
	return true, n, err == nil
}

type op struct {
	kind   string // set get del clear tick race
	cancel bool   // issued with an already cancelled context (cset / cget / cdel / cclear)
	key    string
	val    string
	hasTTL bool
	ttl    int64
	mne    bool
	keep   bool
	rm     bool
	hasUpd bool
	upd    int64
	n      int64
}

func parseOp(f []string) (op, bool) {
	var o op
	if len(f) == 0 {
		return o, false
	}
	o.kind = f[0]
	if f[0] == "cset" || f[0] == "cget" || f[0] == "cdel" || f[0] == "cclear" {
		f = append([]string{f[0][1:]}, f[1:]...)
		o.kind, o.cancel = f[0], true
	}
	switch {
	case f[0] == "set" && len(f) == 6:
		if !parseKey(f[1]) || !isNat(f[2]) || (f[4] != "0" && f[4] != "1") || (f[5] != "0" && f[5] != "1") {
			return o, false
		}
		has, ttl, ok := parseOptInt(f[3])
		if !ok {
			return o, false
		}
		o.key, o.val, o.hasTTL, o.ttl, o.mne, o.keep = f[1], normNat(f[2]), has, ttl, f[4] == "1", f[5] == "1"
		return o, true
	case f[0] == "get" && len(f) == 4:
		if !parseKey(f[1]) || (f[2] != "0" && f[2] != "1") {
			return o, false
		}
		has, u, ok := parseOptInt(f[3])
		if !ok {
			return o, false
		}
		o.key, o.rm, o.hasUpd, o.upd = f[1], f[2] == "1", has, u
		return o, true
	case f[0] == "fset" && len(f) == 3:
		if !parseKey(f[1]) || !isNat(f[2]) {
			return o, false
		}
		o.key, o.val = f[1], normNat(f[2])
		return o, true
	case f[0] == "fget" && len(f) == 2:
		o.key = f[1]
		return o, parseKey(f[1])
	case f[0] == "stress" && len(f) == 7:
		if f[1] != "mem" && f[1] != "rds" {
			return o, false
		}
		lim := []int64{0, 0, 64, 1 << 40, 32, 5000, 16}
		for i := 2; i < 7; i++ {
			if !isNat(f[i]) {
				return o, false
			}
			n, _ := strconv.ParseInt(f[i], 10, 64)
			if n > lim[i] || (i >= 4 && n < 1) {
				return o, false
			}
		}
		o.key = strings.Join(f[1:], " ")
		return o, true
	case f[0] == "smoke" && len(f) == 1:
		return o, true
	case f[0] == "del" && len(f) == 2:
		o.key = f[1]
		return o, parseKey(f[1])
	case f[0] == "clear" && len(f) == 1:
		return o, true
	case f[0] == "tick" && len(f) == 2:
		if !isNat(f[1]) {
			return o, false
		}
		o.n, _ = strconv.ParseInt(f[1], 10, 64)
		return o, true
	case f[0] == "race" && len(f) == 3:
		if !parseKey(f[1]) || !isNat(f[2]) {
			return o, false
		}
		o.key = f[1]
		o.n, _ = strconv.ParseInt(f[2], 10, 64)
		return o, o.n > 0 && o.n <= 64
	}
	return o, false
}

// normNat prints a natural the way Lean prints it (no leading zeros).
func normNat(s string) string {
	n, _ := strconv.ParseUint(s, 10, 64)
	return strconv.FormatUint(n, 10)
}

// canonical key: the oracle parses k007 as key 7
func canonKey(k string) string {
	if len(k) < 2 {
		return k
	}
	return "k" + normNat(k[1:])
}

func (w *world) apply(c cache.TTLCache, o op) string {
	key := realKey(canonKey(o.key))
	ctx := ctx
	if o.cancel {
		ctx = cancelledCtx
	}
	switch o.kind {
	case "set":
		var fns []cache.SetOptFn
		if o.hasTTL {
			fns = append(fns, cache.WithTTL(o.ttl))
		}
		if o.mne {
			fns = append(fns, cache.WithMustNotExist())
		}
		if o.keep {
			fns = append(fns, cache.WithKeepTTL())
		}
		return showErr(c.Set(ctx, key, encVal(o.val), fns...))
	case "get":
		var fns []cache.GetOptFn
		if o.rm {
			fns = append(fns, cache.WithRemoveAfterGet())
		}
		if o.hasUpd {
			fns = append(fns, cache.WithUpdateTTL(o.upd))
		}
		return showGet(c.Get(ctx, key, fns...))
	case "del":
		return showErr(c.Remove(ctx, key))
	case "clear":
		c.Clear(ctx)
		return "ok"
	case "race":
		var wins int64
		var wg sync.WaitGroup
		start := make(chan struct{})
		for i := int64(0); i < o.n; i++ {
			wg.Add(1)
			go func() {
				defer wg.Done()
				<-start
				if _, err := c.Get(ctx, key, cache.WithRemoveAfterGet()); err == nil {
					atomic.AddInt64(&wins, 1)
				}
			}()
		}
		close(start)
		wg.Wait()
		return "wins:" + strconv.FormatInt(wins, 10)
	}
	return "bad-op"
}

// guarded runs f with a recover and a watchdog: never panics, never hangs.
func guarded(f func() string) (out string) {
	done := make(chan string, 1)
	go func() {
		defer func() {
			if r := recover(); r != nil {
				if os.Getenv("C05_DEBUG") != "" {
					fmt.Fprintln(os.Stderr, "panic:", r)
				}
				done <- "panic"
			}
		}()
		done <- f()
	}()
	select {
	case out = <-done:
		return out
	case <-time.After(60 * time.Second):
		// a single call on an in-process cache / fake that does not return within a minute of real time: the worker
		// process gives up; the parent reports the script as `C05:api:hang` (in-process mode: harness error)
		fmt.Fprintln(os.Stderr, "c05: watchdog: a call on the cache did not return within 60 s")
		os.Exit(2)
		return "hang"
	}
}

// runCaseLocal executes a script in this process; `stream`, if not nil, sees every result line as soon as it exists.
func runCaseLocal(c corr.Case, stream func(string)) corr.Result {
	var res corr.Result
	emit := func(o string) {
		res.Outs = append(res.Outs, o)
		if stream != nil {
			stream(o)
		}
	}
	var w *world
	defer func() {
		if w != nil {
			w.close()
		}
	}()
	for _, line := range c.Lines {
		f := strings.Fields(line)
		if len(f) == 5 && f[0] == "new" {
			_, dttl, ok2 := parseOptInt(f[3])
			if (f[1] == "mem" || f[1] == "rds" || f[1] == "both") && isNat(f[2]) && len(f[2]) < 7 && f[3] != "-" && ok2 && isNat(f[4]) {
				if w != nil {
					res.Hits = append(res.Hits, w.mon.finish()...)
					w.close()
				}
				size, _ := strconv.Atoi(f[2])
				clock, _ := strconv.ParseInt(f[4], 10, 64)
				w = newWorld(f[1], size, dttl, clock)
				emit("ok")
				continue
			}
			// an ill-formed `new` line still starts a new script: nothing is running afterwards
			if w != nil {
				res.Hits = append(res.Hits, w.mon.finish()...)
				w.close()
				w = nil
			}
			emit("bad-op")
			continue
		}
		if len(f) > 0 && f[0] == "new" {
			if w != nil {
				res.Hits = append(res.Hits, w.mon.finish()...)
				w.close()
				w = nil
			}
			emit("bad-op")
			continue
		}
		o, ok := parseOp(f)
		if !ok || w == nil {
			emit("bad-op")
			continue
		}
		if o.kind == "tick" {
			atomic.AddInt64(&w.clock, o.n)
			w.mon.tick()
			if w.mode == "both" {
				emit("ok ok")
			} else {
				emit("ok")
			}
			continue
		}
		if o.kind == "smoke" {
			out, hit := runSmoke()
			if hit != nil {
				res.Hits = append(res.Hits, *hit)
			}
			emit(out)
			continue
		}
		if o.kind == "stress" {
			out, hit := runStress(strings.Fields(o.key))
			if hit != nil {
				res.Hits = append(res.Hits, *hit)
			}
			emit(out)
			continue
		}
		if o.kind == "fset" || o.kind == "fget" {
			if w.mode == "mem" {
				emit("bad-op")
				continue
			}
			fo := guarded(func() string {
				if o.kind == "fset" {
					return showErr(w.frg.Set(ctx, realKey(canonKey(o.key)), encVal(o.val)))
				}
				return showGet(w.frg.Get(ctx, realKey(canonKey(o.key))))
			})
			res.Hits = append(res.Hits, w.mon.foreign(o, fo)...)
			emit(fo)
			continue
		}
		var mo, ro string
		if w.mode != "rds" {
			mo = guarded(func() string { return w.apply(w.mem, o) })
		}
		if w.mode != "mem" {
			ro = guarded(func() string { return w.apply(w.rds, o) })
		}
		res.Hits = append(res.Hits, w.mon.observe(o, mo, ro)...)
		switch w.mode {
		case "mem":
			emit(mo)
		case "rds":
			emit(ro)
		default:
			emit(mo + " " + ro)
		}
	}
	if w != nil {
		res.Hits = append(res.Hits, w.mon.finish()...)
	}
	return res
}

// ---- scripts with racing callers (`race` lines) run in a persistent worker process: if the cache aborts the runtime
// under concurrent callers ("fatal error: concurrent map read and map write", a corrupted list) the worker dies, the
// parent reports the script as a finding (`C05:concurrency:crash`) and starts a new worker.

type workerProc struct {
	cmd    *exec.Cmd
	in     *bufio.Writer
	out    *bufio.Reader
	stderr *strings.Builder
}

var worker *workerProc
var workerDeaths int

func startWorker() *workerProc {
	cmd := exec.Command(os.Args[0], "worker")
	stdin, err1 := cmd.StdinPipe()
	stdout, err2 := cmd.StdoutPipe()
	errb := &strings.Builder{}
	cmd.Stderr = errb
	if err1 != nil || err2 != nil || cmd.Start() != nil {
		fmt.Fprintln(os.Stderr, "c05: cannot start the worker process")
		os.Exit(2)
	}
	return &workerProc{cmd: cmd, in: bufio.NewWriter(stdin), out: bufio.NewReaderSize(stdout, 1<<20), stderr: errb}
}

func hasRace(c corr.Case) bool { return hasOp(c, "race") || hasOp(c, "stress") }

func hasOp(c corr.Case, name string) bool {
	for _, l := range c.Lines {
		if l == name || strings.HasPrefix(l, name+" ") {
			return true
		}
	}
	return false
}

func runCase(c corr.Case) corr.Result {
	smokeOnce.Do(func() { smokeRes = startSmoke() })
	// EVERY script runs in the worker process: a call that aborts the runtime (a forgotten Lock(): "fatal error: sync:
	// unlock of unlocked mutex") or never returns (a forgotten Unlock()) on a valid input must become a finding with
	// the script as replay, and must not take the harness down. Only `smoke` (no cache call in this process) is local.
	if (len(c.Lines) == 2 && c.Lines[1] == "smoke") || os.Getenv("C05_INPROCESS") != "" {
		return runCaseLocal(c, nil)
	}
	if workerDeaths >= 25 {
		// the tree kills the worker on ordinary scripts (already reported with replays): do not spend the run on restarts
		var res corr.Result
		for range c.Lines {
			res.Outs = append(res.Outs, "not-run")
		}
		return res
	}
	if worker == nil {
		worker = startWorker()
	}
	w := worker
	fmt.Fprintf(w.in, "CASE %d\n", len(c.Lines))
	for _, l := range c.Lines {
		fmt.Fprintln(w.in, strings.ReplaceAll(l, "\n", " "))
	}
	_ = w.in.Flush()
	var res corr.Result
	for {
		line, err := w.out.ReadString('\n')
		if err != nil {
			break // worker died
		}
		line = strings.TrimRight(line, "\n")
		switch {
		case strings.HasPrefix(line, "OUT "):
			res.Outs = append(res.Outs, line[4:])
		case strings.HasPrefix(line, "HIT "):
			if kv := strings.SplitN(line[4:], "\t", 2); len(kv) == 2 {
				res.Hits = append(res.Hits, corr.Hit{Key: kv[0], What: kv[1]})
			}
		case line == "END":
			return res
		}
	}
	_ = w.cmd.Wait()
	worker = nil
	workerDeaths++
	first := ""
	for _, l := range strings.Split(w.stderr.String(), "\n") {
		if strings.HasPrefix(l, "fatal error:") || strings.HasPrefix(l, "panic:") || strings.HasPrefix(l, "unexpected fault") || strings.HasPrefix(l, "[signal") {
			first = l
			break
		}
	}
	hung := strings.Contains(w.stderr.String(), "c05: watchdog")
	if first == "" && !hung {
		fmt.Fprintln(os.Stderr, "c05: worker process died without a Go runtime abort:", w.stderr.String())
		os.Exit(2)
	}
	crashed := len(res.Outs)
	for i := crashed; i < len(c.Lines); i++ {
		if i == crashed {
			res.Outs = append(res.Outs, "crash")
		} else {
			res.Outs = append(res.Outs, "not-run")
		}
	}
	at := ""
	if crashed < len(c.Lines) {
		at = c.Lines[crashed]
	}
	switch {
	case hung:
		workerDeaths = 25 // every further script would wait for the watchdog again
		if crashed < len(res.Outs) {
			res.Outs[crashed] = "hang"
		}
		res.Hits = append(res.Hits, corr.Hit{Key: "C05:api:hang", What: fmt.Sprintf("the call `%s` did not return within 60 s (a lock that is never released?)", at)})
	case hasRace(c):
		res.Hits = append(res.Hits, corr.Hit{Key: "C05:concurrency:crash", What: fmt.Sprintf("the process was aborted by the Go runtime while executing `%s` (concurrent callers on one cache): %s", at, first)})
	default:
		res.Hits = append(res.Hits, corr.Hit{Key: "C05:api:crash", What: fmt.Sprintf("the process was aborted by the Go runtime while executing `%s` (one caller, valid input): %s", at, first)})
	}
	return res
}

// workerMain: `c05 worker` — runs scripts received on stdin, streaming the result lines.
func workerMain() {
	in := bufio.NewReaderSize(os.Stdin, 1<<20)
	out := bufio.NewWriter(os.Stdout)
	for {
		h, err := in.ReadString('\n')
		if err != nil {
			return
		}
		var n int
		if _, err := fmt.Sscanf(h, "CASE %d", &n); err != nil {
			return
		}
		var c corr.Case
		for i := 0; i < n; i++ {
			l, err := in.ReadString('\n')
			if err != nil {
				return
			}
			c.Lines = append(c.Lines, strings.TrimRight(l, "\n"))
		}
		res := runCaseLocal(c, func(o string) { fmt.Fprintln(out, "OUT "+o); _ = out.Flush() })
		for _, hit := range res.Hits {
			fmt.Fprintln(out, "HIT "+hit.Key+"\t"+strings.ReplaceAll(hit.What, "\n", " "))
		}
		fmt.Fprintln(out, "END")
		_ = out.Flush()
	}
}

// ---------------------------------------------------------------- racing callers, in a child process
//
// `stress <mem|rds> <size> <seed> <goroutines> <opsEach> <keys>`: N goroutines issue Set / Set-if-absent / Get (plain,
// consuming, update-ttl) / Remove on a few keys of ONE cache concurrently, in a child process, so that an
// unrecoverable runtime abort ("fatal error: concurrent map writes", a corrupted list) becomes a finding with this
// script as replay instead of killing the harness. Checked on the results only (P): every value a Get returns was
// really passed to a Set of that key that had started; a value is consumed by at most one remove-after-get read; at
// the end at most `size` keys are retrievable (in-memory). Values are unique per call (goroutine*1e6 + index).

type sop struct {
	kind string // set setnx get getrm getupd del
	key  string
	val  int64
}

func stressOps(seed uint64, g, n, nk int) [][]sop {
	root := rng.New(seed)
	all := make([][]sop, g)
	for gi := 0; gi < g; gi++ {
		r := root.Fork(uint64(gi))
		for i := 0; i < n; i++ {
			o := sop{key: "k" + strconv.Itoa(r.Intn(nk)), val: int64(gi)*1000000 + int64(i)}
			switch x := r.Intn(12); {
			case x < 4:
				o.kind = "set"
			case x < 5:
				o.kind = "setnx"
			case x < 8:
				o.kind = "get"
			case x < 10:
				o.kind = "getrm"
			case x < 11:
				o.kind = "getupd"
			default:
				o.kind = "del"
			}
			all[gi] = append(all[gi], o)
		}
	}
	return all
}

// stressChild runs in the child process; prints `stress-ok` or `stress-bad <what>: <detail>`.
func stressChild(a []string) int {
	if len(a) != 6 {
		return 2
	}
	num := func(s string) int { n, _ := strconv.Atoi(s); return n }
	backend, size, g, n, nk := a[0], num(a[1]), num(a[3]), num(a[4]), num(a[5])
	seed, _ := strconv.ParseUint(a[2], 10, 64)
	ops := stressOps(seed, g, n, nk)
	restore := cache.VerifSetNow(func() int64 { return 1700000000 })
	defer restore()
	var c cache.TTLCache
	if backend == "mem" {
		c = cache.NewTTLMemCache(size, 0)
	} else {
		fk := c05fake.New(func() int64 { return 1700000000000 })
		cl := fk.Client()
		defer cl.Close()
		c = cache.NewTTLRdsCache(cl, "p:", 0)
	}
	progress := make([]int64, g)
	for i := range progress {
		progress[i] = -1
	}
	var mu sync.Mutex
	bad := ""
	report := func(what, detail string) {
		mu.Lock()
		if bad == "" {
			bad = what + ": " + detail
		}
		mu.Unlock()
	}
	valid := func(key string, v []byte) bool {
		x, err := strconv.ParseInt(string(v), 10, 64)
		if err != nil || x < 0 {
			return false
		}
		gi, i := int(x/1000000), int(x%1000000)
		if gi >= g || i >= n {
			return false
		}
		o := ops[gi][i]
		return (o.kind == "set" || o.kind == "setnx") && o.key == key && o.val == x && atomic.LoadInt64(&progress[gi]) >= int64(i)
	}
	consumed := map[string]bool{}
	var wg sync.WaitGroup
	start := make(chan struct{})
	for gi := 0; gi < g; gi++ {
		wg.Add(1)
		go func(gi int) {
			defer wg.Done()
			<-start
			for i, o := range ops[gi] {
				atomic.StoreInt64(&progress[gi], int64(i))
				var v []byte
				var err error
				switch o.kind {
				case "set":
					_ = c.Set(ctx, o.key, []byte(strconv.FormatInt(o.val, 10)))
				case "setnx":
					_ = c.Set(ctx, o.key, []byte(strconv.FormatInt(o.val, 10)), cache.WithMustNotExist(), cache.WithTTL(50))
				case "get":
					v, err = c.Get(ctx, o.key)
				case "getrm":
					v, err = c.Get(ctx, o.key, cache.WithRemoveAfterGet())
				case "getupd":
					v, err = c.Get(ctx, o.key, cache.WithUpdateTTL(70))
				case "del":
					_ = c.Remove(ctx, o.key)
				}
				if strings.HasPrefix(o.kind, "get") && err == nil {
					if !valid(o.key, v) {
						report("value-never-set", fmt.Sprintf("Get %s returned %q, which no started Set of that key stored", o.key, v))
					}
					if o.kind == "getrm" {
						mu.Lock()
						if consumed[string(v)] {
							mu.Unlock()
							report("consumed-more-than-once", fmt.Sprintf("value %s of %s was returned by two remove-after-get reads", v, o.key))
						} else {
							consumed[string(v)] = true
							mu.Unlock()
						}
					}
				}
			}
		}(gi)
	}
	close(start)
	wg.Wait()
	hits := 0
	for k := 0; k < nk; k++ {
		key := "k" + strconv.Itoa(k)
		if v, err := c.Get(ctx, key); err == nil {
			hits++
			if !valid(key, v) {
				report("value-never-set", fmt.Sprintf("final Get %s returned %q, which no Set of that key stored", key, v))
			}
		}
	}
	if backend == "mem" && hits > size {
		report("more-than-size-retrievable", fmt.Sprintf("size=%d but %d keys retrievable after the racing callers finished", size, hits))
	}
	if bad != "" {
		fmt.Println("stress-bad " + bad)
		return 0
	}
	fmt.Println("stress-ok")
	return 0
}

// runStress runs the child and maps its fate to a result line and, if the property is broken, a monitor hit.
func runStress(args []string) (string, *corr.Hit) {
	cmd := exec.Command(os.Args[0], append([]string{"stress"}, args...)...)
	var out, errb strings.Builder
	cmd.Stdout, cmd.Stderr = &out, &errb
	cmd.SysProcAttr = &syscall.SysProcAttr{Setpgid: true}
	if err := cmd.Start(); err != nil {
		fmt.Fprintln(os.Stderr, "c05: cannot start the stress child:", err)
		os.Exit(2)
	}
	done := make(chan error, 1)
	go func() { done <- cmd.Wait() }()
	var err error
	select {
	case err = <-done:
	case <-time.After(180 * time.Second):
		_ = cmd.Process.Kill()
		fmt.Fprintln(os.Stderr, "c05: stress child did not finish within 180 s — harness error")
		os.Exit(2)
	}
	line := strings.TrimSpace(out.String())
	switch {
	case err == nil && line == "stress-ok":
		return "stress-ok", nil
	case err == nil && strings.HasPrefix(line, "stress-bad "):
		rest := strings.TrimPrefix(line, "stress-bad ")
		what := rest
		if i := strings.Index(rest, ":"); i > 0 {
			what = rest[:i]
		}
		return "stress-bad", &corr.Hit{Key: "C05:concurrency:" + what, What: "racing callers (" + strings.Join(args, " ") + "): " + rest}
	}
	// the child died: runtime abort or panic inside the cache under concurrent callers
	msg := errb.String()
	first := ""
	for _, l := range strings.Split(msg, "\n") {
		if strings.HasPrefix(l, "fatal error:") || strings.HasPrefix(l, "panic:") {
			first = l
			break
		}
	}
	if first == "" {
		fmt.Fprintln(os.Stderr, "c05: stress child failed without a Go runtime abort:", err, msg)
		os.Exit(2)
	}
	return "stress-crash", &corr.Hit{Key: "C05:concurrency:crash", What: "racing callers (" + strings.Join(args, " ") + ") aborted the process: " + first}
}

// ---------------------------------------------------------------- the production clock, once per run
//
// `smoke`: a child process that does NOT install the clock hook uses the in-memory cache with the package's own `now`
// and real time: a key set with ttl 1 s must be gone 2.1 s later, a key set with ttl 600 s must still be served.
// Real time can only err on the safe side here (a slower machine makes the first key only more expired; the second
// check would need a 10-minute stall), so this never produces a false alarm; it is the only place where the clock
// that production code reads (`now`, whoever assigns it) is exercised.

func smokeChild() int {
	c := cache.NewTTLMemCache(4, 0)
	_ = c.Set(ctx, "short", []byte("v"), cache.WithTTL(1))
	_ = c.Set(ctx, "long", []byte("w"), cache.WithTTL(600))
	if v, err := c.Get(ctx, "short"); err != nil || string(v) != "v" {
		fmt.Println("smoke-bad a key set with ttl 1 s is not served immediately afterwards")
		return 0
	}
	time.Sleep(2100 * time.Millisecond)
	if v, err := c.Get(ctx, "short"); err == nil {
		fmt.Printf("smoke-bad a key set with ttl 1 s is still served (%q) 2.1 s later under the production clock\n", v)
		return 0
	}
	if _, err := c.Get(ctx, "long"); err != nil {
		fmt.Println("smoke-bad a key set with ttl 600 s is gone after 2.1 s under the production clock")
		return 0
	}
	fmt.Println("smoke-ok")
	return 0
}

var (
	smokeOnce sync.Once
	smokeRes  chan string
	smokeUsed bool
)

func startSmoke() chan string {
	ch := make(chan string, 1)
	go func() {
		cmd := exec.Command(os.Args[0], "smoke")
		var out, errb strings.Builder
		cmd.Stdout, cmd.Stderr = &out, &errb
		if err := cmd.Run(); err != nil {
			ch <- "child-failed " + err.Error() + " " + errb.String()
			return
		}
		ch <- strings.TrimSpace(out.String())
	}()
	return ch
}

// runSmoke: the first call collects the child started when the first script ran (so the 2.1 s are not waited for);
// later calls (shrinking, replay) run a fresh child.
func runSmoke() (string, *corr.Hit) {
	smokeOnce.Do(func() { smokeRes = startSmoke() })
	ch := smokeRes
	if smokeUsed {
		ch = startSmoke()
	}
	smokeUsed = true
	var line string
	select {
	case line = <-ch:
	case <-time.After(180 * time.Second):
		fmt.Fprintln(os.Stderr, "c05: smoke child did not finish within 180 s — harness error")
		os.Exit(2)
	}
	switch {
	case line == "smoke-ok":
		return "smoke-ok", nil
	case strings.HasPrefix(line, "smoke-bad "):
		return "smoke-bad", &corr.Hit{Key: "C05:mem:production-clock", What: "without the clock hook (real time, the package's own `now`): " + strings.TrimPrefix(line, "smoke-bad ")}
	}
	for _, l := range strings.Split(line, "\n") {
		l = strings.TrimSpace(l)
		if i := strings.Index(l, "panic:"); i >= 0 {
			l = l[i:]
		}
		if i := strings.Index(l, "fatal error:"); i >= 0 {
			l = l[i:]
		}
		if strings.HasPrefix(l, "fatal error:") || strings.HasPrefix(l, "panic:") {
			return "smoke-crash", &corr.Hit{Key: "C05:api:crash", What: "Set ttl 1 / Set ttl 600 / Get on a fresh in-memory cache (hook-free child) aborted the process: " + l}
		}
	}
	fmt.Fprintln(os.Stderr, "c05: smoke child failed:", line)
	os.Exit(2)
	return "", nil
}

// ---------------------------------------------------------------- property monitors
//
// The property restated on the results of the public calls (P-observables), independently of the Lean
// model. The monitor keeps, per key, what the property text says a Get may return: the value of the
// latest successful Set, unless the key was removed / cleared / consumed by a remove-after-get read, or
// its time-to-live elapsed. Eviction may make a key disappear early (that is allowed, within the
// recency clause), so every "must be absent" clause is checked always, "must be present" clauses only
// where the property promises presence.

type shadow struct {
	alive       bool   // set and not removed / consumed / cleared since
	val         string // value of the latest successful Set
	never       bool   // no expiry
	dl          int64  // deadline (unix seconds), valid when !never
	when        int64  // instant (unix ms) at which `ttl` seconds have really elapsed: t0_ms + ttl*1000
	nowMs       int64  // clock reading of the current call (set by check)
	rds         bool   // shadow of the redis-backed cache: millisecond precision (dead when now_ms > when)
	dlKnown     bool   // false after a keep-ttl Set that may have hit an evicted key
	touch       int    // sequence number of the last touch
	afterExpiry bool   // stored by a keep-ttl Set on an elapsed key
	gone        string // why the key is not alive any more (removed | cleared | consumed | seen absent)
}

type backend struct {
	name string
	keys map[string]*shadow
	seq  int
	// touches[i] = key touched at sequence i (set ok / get hit / any set-get attempt: an upper bound of "touched")
	touches []string
	// run of consecutive hits of plain Gets at one clock reading
	hitRun       map[string]bool
	maybeEvicted bool // more distinct keys were set than `size`
	distinct     map[string]bool
}

type monitor struct {
	noCompare  bool              // a call with a cancelled context was issued: mem and rds may differ from here on
	frg        map[string]string // foreign-prefix keys: latest value (they never expire and nothing removes them)
	w          *world
	mem, rds   *backend
	admissible bool // the script so far lies inside the mem/rds comparison of the property
	hits       []corr.Hit
	seen       map[string]bool
}

func newBackend(name string) *backend {
	return &backend{name: name, keys: map[string]*shadow{}, hitRun: map[string]bool{}, distinct: map[string]bool{}}
}

func newMonitor(w *world) *monitor {
	return &monitor{frg: map[string]string{}, w: w, mem: newBackend("mem"), rds: newBackend("rds"), admissible: w.dttl > 0, seen: map[string]bool{}}
}

func (m *monitor) add(key, what string) {
	if m.seen[key] {
		return
	}
	m.seen[key] = true
	m.hits = append(m.hits, corr.Hit{Key: key, What: what})
}

// foreign: a key stored through another cache (other prefix) on the same redis is only ever changed through that cache.
func (m *monitor) foreign(o op, out string) []corr.Hit {
	key := canonKey(o.key)
	if o.kind == "fset" {
		if out == "ok" {
			m.frg[key] = o.val
		} else {
			m.add("C05:rds:foreign-prefix-unexpected-result", fmt.Sprintf("Set of %s through a cache with another prefix returned %s", key, out))
		}
		return m.finish()
	}
	want, ok := m.frg[key]
	switch {
	case ok && out != "val:"+want:
		m.add("C05:rds:foreign-prefix-key-touched", fmt.Sprintf("key %s of a cache with another prefix on the same redis (value %s, no expiry) now reads %s: Clear/Remove of this cache must not touch it", key, want, out))
	case !ok && out != "notfound":
		m.add("C05:rds:foreign-prefix-key-touched", fmt.Sprintf("key %s was never set through the other-prefix cache, yet reads %s", key, out))
	}
	return m.finish()
}

func (m *monitor) tick() {
	m.mem.hitRun = map[string]bool{}
	m.rds.hitRun = map[string]bool{}
}

func (m *monitor) finish() []corr.Hit { h := m.hits; m.hits = nil; return h }

func (m *monitor) sec() int64 { return m.w.nowMs() / 1000 }

// The deadline of a key is computed from the HISTORY, not read from the cache: the clock reading at the latest
// successful Set / update-ttl of the key (`dl - ttl`, whole seconds for the in-memory cache, milliseconds for redis)
// plus the effective ttl. The property's reading of "elapsed" at the cache's own clock granularity:
//   a Get at a reading  > t + d must miss;   a Get at a reading <= t + d (key not removed/consumed/evicted) must hit.

// dead: the property says a Get of this key must miss now.
func (s *shadow) dead(sec int64) bool {
	if s == nil || !s.alive {
		return true
	}
	if s.rds {
		return s.dlKnown && !s.never && s.nowMs > s.when
	}
	return s.dlKnown && !s.never && sec > s.dl
}

// present: the time-to-live of the key has not elapsed: reading <= t + d (in memory: seconds; redis: milliseconds).
func (s *shadow) present(nowMs int64) bool {
	if s == nil || !s.alive || !s.dlKnown {
		return false
	}
	if s.never {
		return true
	}
	if s.rds {
		return nowMs <= s.when
	}
	return nowMs/1000 <= s.dl
}

func (m *monitor) effTTL(o op) int64 {
	if o.kind == "set" {
		if o.hasTTL {
			return o.ttl
		}
		return m.w.dttl
	}
	if o.hasUpd && o.upd != 0 {
		return o.upd
	}
	return m.w.dttl
}

// othersSince counts the distinct other keys mentioned by Set/Get calls after sequence number `from`.
func (b *backend) othersSince(from int, key string) int {
	d := map[string]bool{}
	for i := from + 1; i < len(b.touches); i++ {
		if b.touches[i] != key {
			d[b.touches[i]] = true
		}
	}
	return len(d)
}

// check one backend's result against the property; returns true when the result was flagged.
func (m *monitor) check(b *backend, o op, out string) bool {
	flagged := false
	sec := m.sec()
	key := ""
	if o.kind == "set" || o.kind == "get" || o.kind == "del" || o.kind == "race" {
		key = canonKey(o.key)
	}
	s := b.keys[key]
	nowMs := m.w.nowMs()
	if s != nil {
		s.nowMs = nowMs
	}
	lifetime := s != nil && s.alive // the key was set and not removed/consumed: whatever goes wrong concerns its time-to-live
	flag := func(site, what string) {
		flagged = true
		if b.name == "rds" && lifetime && (site == "set-ignores-expiry" || site == "must-not-exist-overwrote-live-key" ||
			site == "get-serves-dead-key" || site == "live-key-missed" || site == "race-nobody-wins") {
			// one root cause, many symptoms: on redis the key does not live for `ttl` seconds
			m.add("C05:rds:ttl-not-honoured", what+" [symptom: "+site+"]")
			return
		}
		if b.name == "mem" && lifetime && s.afterExpiry && (site == "recent-key-evicted" || site == "race-nobody-wins") {
			// the value was stored by a keep-ttl Set on an elapsed key: same root cause as must-not-exist on an elapsed key
			m.add("C05:mem:set-ignores-expiry", what+" [the key was stored by a keep-ttl Set after its time-to-live had elapsed; it must get a fresh deadline like a key never set, but was stored under the dead one]")
			return
		}
		m.add("C05:"+b.name+":"+site, what)
	}
	if o.kind != "get" || o.rm || o.hasUpd {
		b.hitRun = map[string]bool{}
	}
	switch o.kind {
	case "set":
		b.touches = append(b.touches, key)
		b.distinct[key] = true
		if len(b.distinct) > m.w.size {
			b.maybeEvicted = true
		}
		switch out {
		case "exists":
			if !o.mne {
				flag("exists-without-must-not-exist", fmt.Sprintf("Set %s without must-not-exist reported already-exists", key))
			} else if s.dead(sec) {
				why := "was never set / was removed"
				if s != nil && s.alive {
					why = fmt.Sprintf("expired (deadline %d < clock %d)", s.dl, sec)
				}
				flag("set-ignores-expiry", fmt.Sprintf("Set %s with must-not-exist reported already-exists although the key %s: an elapsed key must behave like a key that was never set", key, why))
			}
		case "ok":
			if o.mne && s.present(nowMs) &&
				((b.name == "mem" && b.othersSince(s.touch, key) < m.w.size) || (b.name == "rds" && m.admissible)) {
				flag("must-not-exist-overwrote-live-key", fmt.Sprintf("Set %s with must-not-exist succeeded although the key is live (value %s)", key, s.val))
			}
			ttl := m.effTTL(o)
			ns := &shadow{alive: true, val: o.val, dlKnown: true, never: ttl <= 0, dl: sec + ttl, when: nowMs + ttl*1000, rds: b.name == "rds", nowMs: nowMs}
			if o.keep && !o.mne {
				switch {
				case s != nil && s.alive && !s.dead(sec):
					// keep-ttl on a live entry keeps its deadline (in memory the entry may have been evicted: then a fresh one)
					ns.never, ns.dl, ns.when, ns.dlKnown = s.never, s.dl, s.when, s.dlKnown && !(b.name == "mem" && b.maybeEvicted)
					ns.afterExpiry = s.afterExpiry
				case b.name == "rds":
					ns.never = true // redis: KEEPTTL on an absent key stores it without expiry
				case s != nil && s.alive:
					ns.afterExpiry = true // elapsed key: behaves like a key never set, so it gets a fresh deadline
				}
			}
			b.keys[key] = ns
			ns.touch = len(b.touches) - 1
		case "err":
			if b.name == "mem" {
				flag("unexpected-error", fmt.Sprintf("Set %s returned an unexpected error", key))
			}
			// redis rejects a non-positive expire time; nothing is stored
		default:
			flag("unexpected-result", fmt.Sprintf("Set %s returned %s", key, out))
		}
	case "get":
		b.touches = append(b.touches, key)
		switch {
		case strings.HasPrefix(out, "val:"):
			v := out[4:]
			if s.dead(sec) {
				why := "was never set"
				if s != nil && s.gone != "" {
					why = "was " + s.gone + " after its last Set"
				}
				if s != nil && s.alive {
					why = fmt.Sprintf("expired (deadline %d < clock %d)", s.dl, sec)
				}
				flag("get-serves-dead-key", fmt.Sprintf("Get %s returned value %s although the key %s", key, v, why))
			} else if v != s.val {
				flag("get-not-latest-set", fmt.Sprintf("Get %s returned %s, the latest successful Set stored %s", key, v, s.val))
			}
			if s != nil {
				s.touch = len(b.touches) - 1
				if o.rm {
					s.alive, s.gone = false, "consumed by a remove-after-get read"
				} else if o.hasUpd {
					ttl := m.effTTL(o)
					if b.name == "rds" && ttl <= 0 {
						s.alive = false // EXPIRE with a non-positive time deletes the key
					} else {
						s.never, s.dl, s.when, s.dlKnown = ttl <= 0, sec+ttl, nowMs+ttl*1000, true
					}
				}
			}
			if !o.rm && !o.hasUpd {
				b.hitRun[key] = true
				if b.name == "mem" && len(b.hitRun) > m.w.size {
					ks := make([]string, 0, len(b.hitRun))
					for k := range b.hitRun {
						ks = append(ks, k)
					}
					sort.Strings(ks)
					flag("more-than-size-retrievable", fmt.Sprintf("size=%d but %d distinct keys were retrievable at one instant: %v", m.w.size, len(ks), ks))
				}
			}
		case out == "notfound":
			if s.present(nowMs) {
				// the property promises presence only for recently touched keys (mem) / always below the bound (rds)
				if b.name == "mem" {
					if n := b.othersSince(s.touch, key); n < m.w.size {
						flag("recent-key-evicted", fmt.Sprintf("Get %s missed although its time-to-live has not elapsed (clock reading %d s <= Set reading + ttl = %d s; never=%v) and only %d other distinct keys were touched since (size=%d)", key, sec, s.dl, s.never, n, m.w.size))
					}
				} else if m.admissibleFor(b, o) {
					flag("live-key-missed", fmt.Sprintf("Get %s missed on the redis-backed cache although it was set with a positive ttl whose deadline (%d) is not reached (clock %d)", key, s.dl, sec))
				}
			}
			if s != nil && s.alive {
				s.alive, s.gone = false, "seen absent by a Get"
			}
		case out == "err" && b.name == "rds" && o.cancel:
			// a call with a cancelled context reports an error: nothing may have happened
		default:
			flag("unexpected-result", fmt.Sprintf("Get %s returned %s", key, out))
		}
	case "del":
		switch {
		case out == "ok":
			// the call reported success: from now on the key must be gone (whatever the context was)
			if s != nil && s.alive {
				s.alive, s.gone = false, "removed (Remove returned nil)"
			}
		case out == "err" && b.name == "rds" && o.cancel:
		default:
			flag("unexpected-result", fmt.Sprintf("Remove %s returned %s", key, out))
		}
	case "clear":
		if b.name == "rds" && o.cancel {
			break // Clear has no result; with a cancelled context the redis-backed cache can only log and give up
		}
		for _, s := range b.keys {
			if s.alive {
				s.alive, s.gone = false, "cleared (Clear)"
			}
		}
	case "race":
		if out != "wins:0" && out != "wins:1" {
			flag("consumed-more-than-once", fmt.Sprintf("%d concurrent remove-after-get readers of %s: %s", o.n, key, out))
		}
		if out != "wins:0" && s.dead(sec) {
			flag("get-serves-dead-key", fmt.Sprintf("a remove-after-get reader of %s succeeded although the key is dead", key))
		}
		if out == "wins:0" && s.present(nowMs) && !b.maybeEvicted && (b.name == "mem" && m.w.size > 0 || b.name == "rds" && m.admissible) {
			flag("race-nobody-wins", fmt.Sprintf("no remove-after-get reader of live key %s succeeded", key))
		}
		if s != nil && s.alive {
			s.alive, s.gone = false, "consumed by a remove-after-get read"
		}
	}
	return flagged
}

// admissibleFor: the redis shadow's presence claim holds only inside the comparison domain of the property.
func (m *monitor) admissibleFor(b *backend, o op) bool { return m.admissible }

func (m *monitor) observe(o op, mo, ro string) []corr.Hit {
	sec := m.sec()
	// ---- admissibility of the mem/rds comparison (property quantifier): positive ttls, keep-ttl on live keys only,
	// no call on a key at a clock reading equal to its deadline, distinct keys <= size
	if (o.kind == "set" && !(o.keep && !o.mne)) || (o.kind == "get" && o.hasUpd) {
		// a keep-ttl overwrite does not use its ttl option at all (domain of `ttl_mem_rds_agree`: `admOp`)
		if m.effTTL(o) <= 0 {
			m.admissible = false
		}
	}
	if o.kind == "set" || o.kind == "get" || o.kind == "race" {
		key := canonKey(o.key)
		s := m.mem.keys[key]
		if m.w.mode == "rds" {
			s = m.rds.keys[key]
		}
		if s != nil && s.alive && (!s.dlKnown || (!s.never && s.dl == sec)) {
			m.admissible = false
		}
		if o.kind == "set" && o.keep && s.dead(sec) {
			m.admissible = false
		}
		if o.kind == "set" {
			d := m.mem.distinct
			if m.w.mode == "rds" {
				d = m.rds.distinct
			}
			n := len(d)
			if !d[key] {
				n++
			}
			if n > m.w.size && m.w.mode != "rds" {
				m.admissible = false
			}
		}
	}
	wasAdm := m.admissible
	fm, fr := false, false
	if m.w.mode != "rds" {
		fm = m.check(m.mem, o, mo)
	}
	if m.w.mode != "mem" {
		fr = m.check(m.rds, o, ro)
	}
	if fm || fr {
		m.admissible = false // the comparison is meaningless after a reported violation: the two states have diverged
	}
	if o.cancel {
		m.noCompare = true // cancelled contexts are outside the comparison: the in-memory cache ignores ctx
	}
	if m.w.mode == "both" && wasAdm && !m.noCompare && !fm && !fr && mo != ro {
		m.add("C05:rds:disagrees-with-mem", fmt.Sprintf("inside the comparison domain (positive ttls, keep-ttl on live keys, clock off every deadline, keys <= size) `%s` gave %s in memory and %s on redis", opText(o), mo, ro))
	}
	return m.finish()
}

func opText(o op) string {
	if o.cancel {
		o.cancel = false
		return "(cancelled ctx) " + opText(o)
	}
	switch o.kind {
	case "set":
		t := "-"
		if o.hasTTL {
			t = strconv.FormatInt(o.ttl, 10)
		}
		return fmt.Sprintf("set %s %s %s %v %v", o.key, o.val, t, o.mne, o.keep)
	case "get":
		u := "-"
		if o.hasUpd {
			u = strconv.FormatInt(o.upd, 10)
		}
		return fmt.Sprintf("get %s %v %s", o.key, o.rm, u)
	case "race":
		return fmt.Sprintf("race %s %d", o.key, o.n)
	}
	return o.kind + " " + o.key
}

// ---------------------------------------------------------------- generators

const clock0 = 1700000000000

func b01(b bool) string {
	if b {
		return "1"
	}
	return "0"
}

type gen struct {
	r     *rng.R
	lines []string
	nkeys int
	names []string // key tokens by index (exotic cases); empty: k<i>
	ttls  []int64
}

// key tokens whose real strings (realKey) are long with a common 69-byte prefix, empty, or full of glob characters
var exoticKeys = []string{"k7000", "k7001", "k7002", "k7003", "k8000", "k8001", "k8002", "k8003", "k8004", "k8005", "k8006", "k8007"}

// exotic switches the case to exotic key names (a random arrangement, so that small key sets vary)
func (g *gen) exotic() {
	g.names = append([]string{}, exoticKeys...)
	for i := len(g.names) - 1; i > 0; i-- {
		j := g.r.Intn(i + 1)
		g.names[i], g.names[j] = g.names[j], g.names[i]
	}
}

func (g *gen) name(i int) string {
	if i < len(g.names) {
		return g.names[i]
	}
	return "k" + strconv.Itoa(i)
}

func (g *gen) key() string { return g.name(g.r.Intn(g.nkeys)) }

// values: mostly 0..999; sometimes the empty value (900) or a 70 000-byte one (902)
func (g *gen) val() string {
	switch x := g.r.Intn(40); {
	case x < 3:
		return "900"
	case x == 3:
		return "902"
	}
	return strconv.Itoa(g.r.Range(0, 899))
}
func (g *gen) emit(s string) { g.lines = append(g.lines, s) }

func (g *gen) ttlTok(wild bool) string {
	if g.r.Chance(1, 3) {
		return "-"
	}
	if wild && g.r.Chance(1, 5) {
		return strconv.FormatInt(g.r.PickI64(0, -1, -2, -7, 1, 1000000, 2000000000), 10)
	}
	return strconv.FormatInt(g.ttls[g.r.Intn(len(g.ttls))], 10)
}

// tickTok: clock advances that land before, on and after deadlines (ttls are 1..6 s; sub-second phases too)
func (g *gen) tickTok() string {
	switch g.r.Intn(8) {
	case 0:
		return strconv.Itoa(g.r.Range(1, 999))
	case 1:
		return "1000"
	case 2:
		return strconv.Itoa(1000 * g.r.Range(1, 7))
	case 3:
		return strconv.Itoa(1000*g.r.Range(1, 7) + g.r.Range(1, 999))
	case 4:
		return strconv.Itoa(1000*g.r.Range(0, 3) + g.r.PickInt(0, 1, 999, 500))
	case 5:
		return "1"
	case 6:
		return strconv.Itoa(g.r.PickInt(999, 1001, 2999, 3000, 3001))
	}
	return strconv.Itoa(1000 * g.r.Range(1, 12))
}

func (g *gen) probeAll() {
	for i := 0; i < g.nkeys; i++ {
		g.emit("get " + g.name(i) + " 0 -")
	}
}

// wild script: every option combination, any ttl sign, clock anywhere
func genWild(r *rng.R, mode string, n int) corr.Case {
	size := r.PickInt(0, 0, 1, 1, 2, 2, 3, 4)
	dttl := r.PickI64(0, 0, -3, 2, 3, 5)
	g := &gen{r: r, nkeys: size + r.Range(1, 3), ttls: []int64{1, 2, 3, 4, 6}}
	if r.Chance(1, 3) {
		g.exotic()
	}
	g.emit(fmt.Sprintf("new %s %d %d %d", mode, size, dttl, clock0+int64(r.Intn(1000))))
	for i := 0; i < n; i++ {
		switch x := r.Intn(20); {
		case x == 17 && r.Chance(1, 2): // the same calls with an already cancelled context
			switch r.Intn(6) {
			case 0, 1:
				g.emit("cdel " + g.key())
			case 2:
				g.emit(fmt.Sprintf("cset %s %s %s %s 0", g.key(), g.val(), g.ttlTok(true), b01(r.Chance(1, 4))))
			case 3, 4:
				g.emit(fmt.Sprintf("cget %s %s -", g.key(), b01(r.Chance(1, 3))))
			default:
				g.emit("cclear")
			}
		case x < 7:
			g.emit(fmt.Sprintf("set %s %s %s %s %s", g.key(), g.val(), g.ttlTok(true), b01(r.Chance(1, 4)), b01(r.Chance(1, 4))))
		case x < 13:
			u := "-"
			if r.Chance(1, 4) {
				u = strconv.FormatInt(r.PickI64(0, 1, 2, 3, 5, -1), 10)
			}
			g.emit(fmt.Sprintf("get %s %s %s", g.key(), b01(r.Chance(1, 5)), u))
		case x < 14:
			g.emit("del " + g.key())
		case x == 14 && r.Chance(1, 3):
			g.emit("clear")
		case x == 15 && r.Chance(1, 2):
			g.emit(fmt.Sprintf("race %s %d", g.key(), r.Range(2, 6)))
		case x == 16 && mode != "mem" && r.Chance(1, 2):
			if r.Bool() {
				g.emit(fmt.Sprintf("fset %s %s", g.key(), g.val()))
			} else {
				g.emit("fget " + g.key())
			}
		default:
			g.emit("tick " + g.tickTok())
		}
		if r.Chance(1, 12) {
			g.probeAll()
		}
	}
	g.probeAll()
	return corr.Case{Tag: "wild-" + mode, Lines: g.lines}
}

// admissible script for the mem/rds comparison: positive ttls, keys <= size, keep-ttl on live keys, clock off deadlines
func genAdmissible(r *rng.R, n int) corr.Case {
	nkeys := r.Range(1, 4)
	size := nkeys + r.Intn(2)
	dttl := r.PickI64(2, 3, 5, 60)
	g := &gen{r: r, nkeys: nkeys, ttls: []int64{1, 2, 3, 4, 6, 60}}
	if r.Chance(1, 3) {
		g.exotic()
	}
	clock := int64(clock0 + int64(r.Intn(1000)))
	g.emit(fmt.Sprintf("new both %d %d %d", size, dttl, clock))
	type st struct {
		live bool
		dl   int64
	}
	keys := map[string]*st{}
	eff := func(tok string) int64 {
		if tok == "-" {
			return dttl
		}
		v, _ := strconv.ParseInt(tok, 10, 64)
		return v
	}
	onDeadline := func(sec int64, k string) bool {
		s := keys[k]
		return s != nil && s.live && s.dl == sec
	}
	for i := 0; i < n; i++ {
		sec := clock / 1000
		k := g.key()
		if onDeadline(sec, k) { // never touch a key on its deadline second
			g.emit("tick 1000")
			clock += 1000
			continue
		}
		s := keys[k]
		liveNow := s != nil && s.live && sec < s.dl
		switch x := r.Intn(20); {
		case x < 7:
			tok := g.ttlTok(false)
			keep := liveNow && r.Chance(1, 3)
			mne := r.Chance(1, 4)
			if keep && !mne && r.Chance(1, 3) {
				tok = r.Pick("0", "-1", "-7") // unused by a keep-ttl overwrite: still inside the comparison domain
			}
			g.emit(fmt.Sprintf("set %s %s %s %s %s", k, g.val(), tok, b01(mne), b01(keep)))
			switch {
			case mne && liveNow: // exists
			case keep && !mne:
			default:
				keys[k] = &st{true, sec + eff(tok)}
			}
		case x < 13:
			u := "-"
			if r.Chance(1, 4) {
				u = strconv.FormatInt(r.PickI64(0, 1, 2, 3, 5), 10)
			}
			rm := r.Chance(1, 5)
			g.emit(fmt.Sprintf("get %s %s %s", k, b01(rm), u))
			if liveNow {
				if rm {
					s.live = false
				} else if u != "-" {
					t := eff(u)
					if t == 0 {
						t = dttl
					}
					s.dl = sec + t
				}
			}
		case x < 14:
			g.emit("del " + k)
			if s != nil {
				s.live = false
			}
		case x == 14 && r.Chance(1, 3):
			g.emit("clear")
			for _, s := range keys {
				s.live = false
			}
		case x == 15 && r.Chance(1, 2):
			g.emit(fmt.Sprintf("race %s %d", k, r.Range(2, 6)))
			if s != nil {
				s.live = false
			}
		default:
			t, _ := strconv.ParseInt(g.tickTok(), 10, 64)
			g.emit("tick " + strconv.FormatInt(t, 10))
			clock += t
		}
	}
	// final probe, stepping off deadlines
	for i := 0; i < nkeys; i++ {
		k := g.name(i)
		if onDeadline(clock/1000, k) {
			g.emit("tick 1000")
			clock += 1000
		}
		g.emit("get " + k + " 0 -")
	}
	return corr.Case{Tag: "admissible-both", Lines: g.lines}
}

// the boundary instants of a deadline, in-memory cache only: Set at reading t with ttl d, (keep-ttl Sets, plain Gets and
// calls on other keys in between), then a Get at reading exactly t+d (any millisecond of that second: must hit) and one
// at t+d+1 (must miss), then set-if-absent (must succeed). Size is large enough that nothing is evicted.
func genDeadlineBoundary(r *rng.R) corr.Case {
	g := &gen{r: r, nkeys: 3, ttls: []int64{1, 2, 3, 5, 60}}
	dttl := r.PickI64(0, 2, 4)
	clock := clock0 + int64(r.Intn(1000))
	g.emit(fmt.Sprintf("new mem %d %d %d", r.Range(3, 5), dttl, clock))
	tickTo := func(sec int64) {
		target := sec*1000 + int64(r.PickInt(0, 0, 999, r.Intn(1000)))
		if target <= clock {
			target = sec*1000 + 999
		}
		if target > clock {
			g.emit("tick " + strconv.FormatInt(target-clock, 10))
			clock = target
		}
	}
	for round := 0; round < r.Range(1, 3); round++ {
		k := g.key()
		tok := g.ttlTok(false)
		d := dttl
		if tok != "-" {
			d, _ = strconv.ParseInt(tok, 10, 64)
		}
		if d <= 0 {
			tok, d = "2", 2
		}
		g.emit(fmt.Sprintf("set %s %s %s 0 0", k, g.val(), tok))
		dl := clock/1000 + d
		// noise that must not move the deadline
		for i := 0; i < r.Intn(4); i++ {
			switch r.Intn(5) {
			case 0:
				g.emit(fmt.Sprintf("get %s 0 -", k))
			case 1:
				g.emit(fmt.Sprintf("set %s %s %s 0 1", k, g.val(), g.ttlTok(false))) // keep-ttl: new value, same deadline
			case 2:
				o := "k" + strconv.Itoa(3+r.Intn(2))
				g.emit(fmt.Sprintf("set %s %s - 0 0", o, g.val()))
			case 3:
				if clock/1000 < dl {
					tickTo(clock/1000 + int64(r.Intn(int(dl-clock/1000)+1)))
				}
			default:
				if r.Chance(1, 2) { // update-ttl restarts the time-to-live
					u := r.PickI64(1, 2, 3)
					g.emit(fmt.Sprintf("get %s 0 %d", k, u))
					dl = clock/1000 + u
				}
			}
		}
		if r.Chance(1, 3) && clock/1000 < dl-1 {
			tickTo(dl - 1)
			g.emit(fmt.Sprintf("get %s 0 -", k))
		}
		tickTo(dl)
		g.emit(fmt.Sprintf("get %s 0 -", k))
		if r.Chance(1, 2) {
			g.emit(fmt.Sprintf("set %s %s - 1 0", k, g.val())) // still live: already-exists
		}
		tickTo(dl + 1)
		switch r.Intn(3) {
		case 0:
			g.emit(fmt.Sprintf("get %s 0 -", k))
		case 1:
			g.emit(fmt.Sprintf("set %s %s - 1 0", k, g.val()))
			g.emit(fmt.Sprintf("get %s 0 -", k))
		default:
			g.emit(fmt.Sprintf("get %s 1 -", k))
		}
	}
	g.probeAll()
	return corr.Case{Tag: "deadline-boundary-mem", Lines: g.lines}
}

// many distinct keys against a small bound, then a probe of all of them at one instant
func genBound(r *rng.R) corr.Case {
	size := r.Range(0, 4)
	g := &gen{r: r, nkeys: size + r.Range(1, 5), ttls: []int64{2, 5, 60}}
	if r.Chance(1, 4) {
		g.exotic()
	}
	g.emit(fmt.Sprintf("new mem %d %d %d", size, r.PickI64(0, 60), clock0))
	for i := 0; i < r.Range(3, 25); i++ {
		if r.Chance(3, 4) {
			g.emit(fmt.Sprintf("set %s %s %s 0 0", g.key(), g.val(), g.ttlTok(false)))
		} else {
			g.emit(fmt.Sprintf("get %s 0 -", g.key()))
		}
	}
	g.probeAll()
	return corr.Case{Tag: "bound-mem", Lines: g.lines}
}

// more live keys under the prefix than one SCAN page (11..60), keys of another prefix on the same redis, then Clear
// and a Get of every key on both back-ends (in-memory size large enough, positive ttls far away: inside the
// comparison domain), then the other-prefix keys must still be there
// large caches: size 63 … 5000, size+1 … size+20 distinct keys set in order, a few early keys re-touched, then a probe
// of every key: exactly the least recently touched ones may be gone, and at most `size` may hit
func genBoundLarge(r *rng.R) corr.Case {
	size := r.PickInt(63, 64, 100, 255, 256, 257, 300, 1000, 1000, 5000)
	extra := r.Range(1, 20)
	g := &gen{r: r, nkeys: size + extra, ttls: []int64{600}}
	g.emit(fmt.Sprintf("new mem %d %d %d", size, r.PickI64(0, 600), clock0))
	for i := 0; i < size; i++ {
		g.emit(fmt.Sprintf("set k%d %d - 0 0", i, i%900))
	}
	for i := 0; i < r.Intn(4); i++ { // re-touch some of the oldest keys before the overflow
		k := r.Intn(extra + 3)
		if r.Bool() {
			g.emit(fmt.Sprintf("get k%d 0 -", k))
		} else {
			g.emit(fmt.Sprintf("set k%d %d - 0 0", k, r.Range(0, 899)))
		}
	}
	for i := size; i < size+extra; i++ {
		g.emit(fmt.Sprintf("set k%d %d - 0 0", i, i%900))
	}
	g.probeAll()
	return corr.Case{Tag: "bound-large-mem", Lines: g.lines}
}

func genClearMany(r *rng.R) corr.Case {
	n := r.Range(11, 60)
	if r.Chance(1, 6) {
		n = r.Range(1, 12)
	}
	nf := r.PickInt(0, 1, 1, 3, 9, 10, 11, 25)
	g := &gen{r: r, nkeys: n, ttls: []int64{60, 90, 300}}
	if r.Chance(1, 3) {
		g.exotic()
	}
	mode := r.Pick("both", "both", "both", "rds")
	g.emit(fmt.Sprintf("new %s %d %d %d", mode, n+r.Intn(3), r.PickI64(60, 300), clock0+int64(r.Intn(1000))))
	rounds := 1 + r.Intn(2)
	for round := 0; round < rounds; round++ {
		m := n
		if round > 0 {
			m = r.Range(1, n)
		}
		perm := make([]int, m)
		for i := range perm {
			perm[i] = i
		}
		for i := m - 1; i > 0; i-- {
			j := r.Intn(i + 1)
			perm[i], perm[j] = perm[j], perm[i]
		}
		fi := 0
		for _, k := range perm {
			g.emit(fmt.Sprintf("set %s %s %s 0 0", g.name(k), g.val(), g.ttlTok(false)))
			if fi < nf && r.Chance(1, 3) {
				g.emit(fmt.Sprintf("fset k%d %s", fi, g.val()))
				fi++
			}
			if r.Chance(1, 15) {
				g.emit("tick " + strconv.Itoa(r.Range(1, 400)))
			}
		}
		for ; fi < nf; fi++ {
			g.emit(fmt.Sprintf("fset k%d %s", fi, g.val()))
		}
		if r.Chance(1, 4) {
			g.emit("get " + g.key() + " 0 -")
		}
		g.emit("clear")
		g.probeAll()
		for i := 0; i < nf; i++ {
			g.emit(fmt.Sprintf("fget k%d", i))
		}
	}
	return corr.Case{Tag: "clear-many-" + mode, Lines: g.lines}
}

// racing callers on one cache (child process)
func genStress(r *rng.R) corr.Case {
	backend := r.Pick("mem", "mem", "mem", "rds")
	n := r.PickInt(200, 400, 1000)
	if backend == "rds" {
		n = r.PickInt(50, 100)
	}
	return corr.Case{Tag: "stress-" + backend, Lines: []string{
		fmt.Sprintf("new mem 2 0 %d", clock0),
		fmt.Sprintf("stress %s %d %d %d %d %d", backend, r.Range(0, 4), r.Intn(1000000), r.PickInt(2, 4, 8, 16), n, r.Range(1, 6)),
	}}
}

func genMalformed(r *rng.R) corr.Case {
	junk := []string{"", "set", "set k1", "set k1 x - 0 0", "set 1 2 - 0 0", "set k1 2 - 2 0", "get k1", "get k1 2 -", "get k1 0 x", "tick -5", "tick x",
		"race k1 0", "race k1", "fset k1", "fget", "fset k1 x", "fget 3", "smoke now", "cdel", "cset k1", "cget k1 0", "cclear now", "ctick 5", "crace k1 2", "stress mem 2 1 0 10 2", "stress foo 2 1 2 10 2", "stress mem 2 1 2 10", "stress mem 99 1 2 10 2", "del", "del 5", "clear now", "new mem 1", "new foo 1 0 5", "new mem -1 0 5", "new mem 1 - 5", "SET k1 1 - 0 0", "set k1 1 -- 0 0", "set k1 1 + 0 0", "get k1 0 1e3"}
	lines := []string{r.Pick("new mem 2 0 1700000000000", "new both 2 3 1700000000000", "new", "new mem x 0 5", "new rds 1 1 1 1")}
	for i := 0; i < r.Range(3, 10); i++ {
		if r.Chance(1, 2) {
			lines = append(lines, junk[r.Intn(len(junk))])
		} else {
			lines = append(lines, r.Pick("set k1 5 - 0 0", "get k1 0 -", "tick 1000", "del k1", "set k01 7 2 1 0", "get k001 1 -"))
		}
	}
	return corr.Case{Tag: "malformed", Lines: lines}
}

func seqLines(format string, from, to int) []string {
	var out []string
	for i := from; i < to; i++ {
		out = append(out, fmt.Sprintf(format, i))
	}
	return out
}

func clearManyFixed(n int, clock int64) []string {
	lines := []string{fmt.Sprintf("new both %d 300 %d", n, clock)}
	for i := 0; i < n; i++ {
		lines = append(lines, fmt.Sprintf("set k%d %d - 0 0", i, i+1))
	}
	lines = append(lines, "fset k0 7", "clear")
	for i := 0; i < n; i++ {
		lines = append(lines, fmt.Sprintf("get k%d 0 -", i))
	}
	return append(lines, "fget k0")
}

func fixedCases() []corr.Case {
	c := func(tag string, lines ...string) corr.Case { return corr.Case{Tag: tag, Lines: lines} }
	return []corr.Case{
		// Clear with more keys than one SCAN page (default COUNT 10), one key of another prefix before / after them
		// red-team inputs: empty value overwrites; long keys with a common prefix; empty key consumed once; Remove with a
		// cancelled context; size 256 with 257 keys
		c("boundary-empty-value", "new both 2 60 1700000000000", "set k1 5 - 0 0", "set k1 900 - 0 0", "get k1 0 -", "set k2 902 - 0 0", "get k2 0 -"),
		c("boundary-long-keys", "new both 4 60 1700000000000", "set k7000 5 - 0 0", "get k7001 0 -", "set k7001 6 - 1 0", "get k7000 0 -", "get k7001 0 -"),
		c("boundary-empty-key", "new both 2 60 1700000000000", "set k8000 5 - 0 0", "get k8000 1 -", "get k8000 1 -", "set k8000 6 2 0 0", "del k8000", "get k8000 0 -", "set k8000 7 1 0 0", "tick 2000", "get k8000 0 -"),
		c("boundary-glob-keys", "new both 8 60 1700000000001", "set k8001 1 - 0 0", "set k8002 2 - 0 0", "set k8003 3 - 0 0", "set k8005 4 - 0 0", "set k8007 5 - 0 0", "fset k8001 9", "get k8007 0 -", "clear", "get k8001 0 -", "get k8002 0 -", "get k8003 0 -", "get k8005 0 -", "get k8007 0 -", "fget k8001"),
		c("boundary-cancelled-remove", "new both 2 60 1700000000000", "set k1 5 - 0 0", "cdel k1", "get k1 0 -", "cget k1 0 -", "cset k1 6 - 0 0", "get k1 0 -", "cclear", "get k1 0 -"),
		c("boundary-size-256", append(append([]string{"new mem 256 0 1700000000000"}, seqLines("set k%d 1 - 0 0", 0, 257)...), "get k2 0 -", "get k1 0 -", "get k0 0 -")...),
		c("stress-mem-fixed", "new mem 2 0 1700000000000", "stress mem 2 7 8 1000 3", "stress mem 0 8 8 300 2"),
		c("stress-rds-fixed", "new mem 2 0 1700000000000", "stress rds 2 9 6 100 2"),
		c("boundary-clear-40-keys", clearManyFixed(40, 1700000000001)...),
		c("boundary-clear-11-keys", clearManyFixed(11, 1700000000000)...),
		c("boundary-clear-10-keys", clearManyFixed(10, 1700000000000)...),
		// F02: set; ttl elapses; set must-not-exist
		c("witness-expired-must-not-exist", "new mem 2 0 1700000000000", "set k1 5 3 0 0", "tick 4000", "set k1 6 - 1 0", "get k1 0 -"),
		// F02': keep-ttl on an elapsed key stores the value under the dead deadline
		c("witness-expired-keep-ttl", "new mem 2 0 1700000000000", "set k1 5 3 0 0", "tick 4000", "set k1 6 - 0 1", "get k1 0 -"),
		// F03: size 0
		c("witness-size-zero", "new mem 0 0 1700000000000", "set k1 5 - 0 0", "set k2 6 - 0 0", "get k1 0 -", "get k2 0 -"),
		// F04: ttl unit of the redis backend
		c("witness-rds-ttl-unit", "new both 2 60 1700000000000", "set k1 5 - 0 0", "tick 2000", "get k1 0 -"),
		c("witness-rds-update-ttl-unit", "new both 2 60 1700000000000", "set k1 5 - 0 0", "get k1 0 30", "tick 1500", "get k1 0 -"),
		// boundaries: the deadline instant (mem: still live at now == deadline, dead one second later)
		c("boundary-deadline-instant", "new mem 2 0 1700000000000", "set k1 5 3 0 0", "tick 2999", "get k1 0 -", "tick 1", "get k1 0 -", "tick 999", "get k1 0 -", "tick 1", "get k1 0 -"),
		c("boundary-deadline-instant-both", "new both 2 3 1700000000500", "set k1 5 - 0 0", "tick 2999", "get k1 0 -", "tick 1", "get k1 0 -", "tick 499", "get k1 0 -", "tick 1", "get k1 0 -", "tick 1000", "get k1 0 -"),
		// eviction order and the bound
		c("boundary-evict-tail", "new mem 2 0 1700000000000", "set k1 1 - 0 0", "set k2 2 - 0 0", "get k1 0 -", "set k3 3 - 0 0", "get k1 0 -", "get k2 0 -", "get k3 0 -"),
		c("boundary-consume-once", "new both 2 5 1700000000000", "set k1 1 - 0 0", "get k1 1 -", "get k1 0 -", "set k1 2 - 1 0", "race k1 5", "get k1 0 -"),
		c("boundary-update-ttl-zero", "new mem 2 2 1700000000000", "set k1 1 9 0 0", "get k1 0 0", "tick 3000", "get k1 0 -"),
		c("boundary-keep-ttl-live", "new both 2 5 1700000000000", "set k1 1 2 0 0", "tick 1000", "set k1 2 - 0 1", "tick 2000", "get k1 0 -"),
		c("boundary-nonpositive-ttl", "new both 2 0 1700000000000", "set k1 1 - 0 0", "set k2 2 -1 0 0", "set k3 3 -5 1 0", "tick 100000", "get k1 0 -", "get k2 0 -", "get k3 0 -", "get k1 0 0", "get k1 0 -"),
		c("boundary-clear", "new both 3 5 1700000000000", "set k1 1 - 0 0", "set k2 2 - 0 0", "clear", "get k1 0 -", "get k2 0 -", "set k1 3 - 1 0", "get k1 0 -"),
	}
}

func tierCount(tier string) int {
	switch tier {
	case "quick":
		return 4000
	case "thorough":
		return 60000
	}
	return 15000
}

func spec() corr.Spec {
	return corr.Spec{
		Property: "C05",
		Fixed:    fixedCases,
		Count:    tierCount,
		Gen: func(r *rng.R, tier string, i int) corr.Case {
			if i == tierCount(tier)-1 {
				// last case of the run: collect the hook-free child that was started with the first script
				return corr.Case{Tag: "smoke-production-clock", Lines: []string{"new mem 1 0 1700000000000", "smoke"}}
			}
			n := r.Range(6, 30)
			if tier != "quick" && r.Chance(1, 4) {
				n = r.Range(30, 90)
			}
			switch x := r.Intn(20); {
			case x < 5:
				return genWild(r, "mem", n)
			case x < 6:
				return genDeadlineBoundary(r)
			case x < 11:
				return genAdmissible(r, n)
			case x < 15:
				return genWild(r, "both", n)
			case x < 17:
				return genWild(r, "rds", n)
			case x < 18:
				return genBound(r)
			case x < 19:
				return genClearMany(r)
			}
			if r.Chance(1, 5) {
				return genStress(r)
			}
			if r.Chance(1, 8) {
				return genBoundLarge(r)
			}
			return genMalformed(r)
		},
		Run: runCase,
		NonTrivial: func(c corr.Case, r corr.Result) bool {
			sets, hits := 0, 0
			for i, l := range c.Lines {
				if strings.HasPrefix(l, "set ") && strings.HasPrefix(r.Outs[i], "ok") {
					sets++
				}
				if strings.HasPrefix(l, "get ") && strings.Contains(r.Outs[i], "val:") {
					hits++
				}
			}
			return sets >= 1 && hits >= 1
		},
		Rule: "seeded scripts over Set(ttl|default, must-not-exist, keep-ttl) / Get(plain, remove-after-get, update-ttl) / Remove / Clear / clock advances (sub-second, on, before and after deadlines) / n concurrent remove-after-get readers; classes: wild-mem, wild-rds, wild-both (any ttl sign, sizes 0..4, default ttl <=0 and >0), admissible-both (the comparison domain of the property), bound-mem (more keys than size, then a probe of all keys), deadline-boundary-mem (Set at reading t with ttl d, noise that must not move the deadline, Gets at readings t+d-1 / t+d (hit) / t+d+1 (miss)), stress-mem / stress-rds (2..16 goroutines racing Set/Set-if-absent/Get/consuming Get/update-ttl Get/Remove on 1..6 keys in a child process), clear-many (11..60 live keys + 0..25 keys of another prefix on the same redis, Clear, Get of every key on both back-ends, other-prefix keys still there; the fake pages SCAN like redis), malformed; a case is non-trivial when >= 1 Set succeeded and >= 1 Get hit; distinct = distinct script text",
		Assumptions: []string{
			"redis behaves as the in-process RESP fake (go/lib/c05fake) and the Lean `Rds` model say: SET [PX|EX|KEEPTTL] [NX], SETNX, GET, GETDEL, EXPIRE, multi-key DEL, cursor-paged SCAN MATCH/COUNT (default 10 keys examined per call, short and empty pages, cursor 0 ends; keys present throughout are returned); expired when now > when; lazy expiry",
			"a real go-redis v9 client is used, so its duration formatting (usePrecise/formatMs/formatSec) is exercised, not assumed",
			"ttl is a number of seconds inside the range of time.Duration (|ttl| < 9.2e9 s) and clock + ttl stays inside int64 (ttl magnitudes up to 2e9 are generated); beyond that `now()+ttl` and `time.Duration(ttl)*time.Second` wrap — outside the property ('positive ttl')",
			"values are compared by content at call time; aliasing of the caller's / the returned []byte with the in-memory cache's storage is not claimed by the property and not exercised",
			"scripts with racing callers run in a worker / child process; a Go runtime abort there is reported as C05:concurrency:crash with the script as replay; real time never decides a result (client timeouts 60 s, a 120 s watchdog is a harness error)",
			"concurrent callers: each public call of the in-memory cache is one critical section (lock facts regenerated: Lock + defer Unlock first in Set/Get/Remove/Clear)",
		},
		Trusted: []string{"go/lib/c05fake (redis semantics as written)", "container/list (modelled: PushFront, MoveToFront, Remove, Back, Len, Init)"},
	}
}
