package main

import (
	"fmt"
	"math"
	"os"
	"runtime"
	"sort"
	"strconv"
	"strings"
	"sync"
	"sync/atomic"
	"time"

	"github.com/pinealctx/neptune/remap"
	"github.com/pinealctx/neptune/syncx/keylock"

	"nvharness/lib/corr"
	"nvharness/lib/rng"
	"nvharness/lib/sched"
)

// locker is the uniform view of the four locker types over key *ids* 0..K-1.
type locker interface {
	Lock(k int)
	Unlock(k int)
	RLock(k int)
	RUnlock(k int)
	Locks(ks []int)
	Unlocks(ks []int)
	RLocks(ks []int)
	RUnlocks(ks []int)
	Multi() bool
	Grow(n int) // make key ids < n addressable (extra keys of the burst ops)
	Entries() int
	Counts(k int) (int, int, bool)
}

type anyLocker struct {
	l    keylock.Locker
	vals []interface{}
	str  bool
}

func (a *anyLocker) Grow(n int) {
	for k := len(a.vals); k < n; k++ {
		if a.str {
			a.vals = append(a.vals, "x-"+strconv.Itoa(k))
		} else {
			a.vals = append(a.vals, 1000000+k)
		}
	}
}

func (a *anyLocker) Lock(k int)                    { a.l.Lock(a.vals[k]) }
func (a *anyLocker) Unlock(k int)                  { a.l.Unlock(a.vals[k]) }
func (a *anyLocker) RLock(k int)                   { a.l.RLock(a.vals[k]) }
func (a *anyLocker) RUnlock(k int)                 { a.l.RUnlock(a.vals[k]) }
func (a *anyLocker) Locks(ks []int)                { panic("no multi") }
func (a *anyLocker) Unlocks(ks []int)              { panic("no multi") }
func (a *anyLocker) RLocks(ks []int)               { panic("no multi") }
func (a *anyLocker) RUnlocks(ks []int)             { panic("no multi") }
func (a *anyLocker) Multi() bool                   { return false }
func (a *anyLocker) Entries() int                  { return keylock.VerifEntries(a.l) }
func (a *anyLocker) Counts(k int) (int, int, bool) { return keylock.VerifKeyCounts(a.l, a.vals[k]) }

type tLocker[T comparable] struct {
	l    keylock.TLocker[T]
	vals []T
	mk   func(k int) T
}

func (a *tLocker[T]) Grow(n int) {
	for k := len(a.vals); k < n; k++ {
		a.vals = append(a.vals, a.mk(k))
	}
}

// hitKey implements remap.HitGroup: routed by Hit(), but a key in its own right (identity = both fields)
type hitKey struct {
	hit uint64
	id  int
}

func (h hitKey) Hit() uint64 { return h.hit }

// negative and extreme int keys (hash kinds `neg` = int, `n64` = int64): routed by remap.SimpleIndex = uint64(v) % shards
var negInts = []int64{-1, -5, math.MinInt64, math.MaxInt64, -73, -2, -146, 5, 70, -4, -1 << 32, 1<<63 - 2}

func (a *tLocker[T]) sel(ks []int) []T {
	out := make([]T, len(ks))
	for i, k := range ks {
		out[i] = a.vals[k]
	}
	return out
}
func (a *tLocker[T]) Lock(k int)                    { a.l.Lock(a.vals[k]) }
func (a *tLocker[T]) Unlock(k int)                  { a.l.Unlock(a.vals[k]) }
func (a *tLocker[T]) RLock(k int)                   { a.l.RLock(a.vals[k]) }
func (a *tLocker[T]) RUnlock(k int)                 { a.l.RUnlock(a.vals[k]) }
func (a *tLocker[T]) Locks(ks []int)                { a.l.Locks(a.sel(ks)) }
func (a *tLocker[T]) Unlocks(ks []int)              { a.l.Unlocks(a.sel(ks)) }
func (a *tLocker[T]) RLocks(ks []int)               { a.l.RLocks(a.sel(ks)) }
func (a *tLocker[T]) RUnlocks(ks []int)             { a.l.RUnlocks(a.sel(ks)) }
func (a *tLocker[T]) Multi() bool                   { return true }
func (a *tLocker[T]) Entries() int                  { return keylock.VerifTEntries(a.l) }
func (a *tLocker[T]) Counts(k int) (int, int, bool) { return keylock.VerifTKeyCounts(a.l, a.vals[k]) }

// keyValues finds, for each key id i, a concrete key value routed to shard shards[i] by the public remap API.
func keyValues(hash string, prime uint64, single bool, shards []int) ([]int, []string, bool) {
	rm := remap.NewReMap(remap.WithPrime(prime))
	ints := make([]int, len(shards))
	strs := make([]string, len(shards))
	for i, s := range shards {
		found := false
		for j := -1; j < 20000 && !found; j++ {
			v := 1000*(i+1) + j
			sv := "key-" + strconv.Itoa(i) + "-" + strconv.Itoa(j)
			if j < 0 {
				// key 0 is the zero value of the key type whenever the routing allows it ("for every key")
				if i != 0 {
					continue
				}
				v, sv = 0, ""
			}
			var idx int
			switch {
			case single:
				idx = 0
			case hash == "mod":
				idx = rm.SimpleIndex(v)
			case hash == "xh":
				idx = rm.XHashIndex(v)
			default: // str
				idx = rm.SimpleIndex(sv)
			}
			if idx == s {
				ints[i], strs[i], found = v, sv, true
			}
		}
		if !found {
			return nil, nil, false
		}
	}
	return ints, strs, true
}

type env struct {
	fields     []string // the init line, to build a fresh locker of the same shape
	kind, hash string
	prime      int
	N, K       int
	shards     []int
	lk         locker
	unroutable bool   // pointer / float keys on a group locker: remap cannot route them, every lock call panics before it locks
	alias      []int  // key ids that are EQUAL keys in Go (0.0 and -0.0): exclusion is judged per equality class
	ptrs       []*obj // pointer keys (kind ptr), for `mutate`
	// pure routing (route.go): the key values, the harness' own ReMap with the locker's shard count, xxhash or modulo routing
	pureVals []interface{}
	rm       *remap.ReMap
	xhash    bool
}

// obj is the pointee of the pointer keys: the key is the pointer's identity, not the contents
type obj struct{ N int }

func parseInit(f []string) (*env, bool) {
	if len(f) < 6 {
		return nil, false
	}
	e := &env{kind: f[1], hash: f[2], fields: append([]string{}, f...)}
	nums := make([]int, 0, len(f))
	for _, x := range f[3:] {
		v, ok := parseNat(x)
		if !ok {
			return nil, false
		}
		nums = append(nums, v)
	}
	e.prime, e.N, e.K, e.shards = nums[0], nums[1], nums[2], nums[3:]
	single := e.kind == "kl" || e.kind == "tkl"
	if !(single || e.kind == "klg" || e.kind == "tkg") {
		return nil, false
	}
	if e.hash == "ptr" || e.hash == "flt" {
		return parseInitOdd(e, nums, single)
	}
	if e.hash == "bsx" || e.hash == "col" {
		return parseInitRoute(e, nums)
	}
	special := e.hash == "neg" || e.hash == "n64" || e.hash == "hit"
	if special {
		if (e.hash == "hit" && e.kind != "kl" && e.kind != "klg") || (e.hash == "n64" && e.kind != "tkl" && e.kind != "tkg") || (e.hash != "hit" && len(nums) >= 3 && nums[2] > len(negInts)) {
			return nil, false
		}
	}
	if !special && e.hash != "mod" && e.hash != "xh" && e.hash != "str" {
		// the oracle ignores the hash name; the runner needs a known one to build the locker
		return nil, false
	}
	if e.prime < 1 || e.prime > 100 || e.N < 1 || e.N > 48 || e.K < 1 || e.K > 48 || len(e.shards) != e.K || (single && e.prime != 1) {
		return nil, false
	}
	for _, s := range e.shards {
		if s >= e.prime {
			return nil, false
		}
	}
	opt := remap.WithPrime(uint64(e.prime))
	if special {
		rm := remap.NewReMap(opt)
		anyVals := make([]interface{}, e.K)
		i64 := make([]int64, e.K)
		is := make([]int, e.K)
		for i := range anyVals {
			var v interface{}
			if e.hash == "hit" {
				v = hitKey{hit: uint64(e.shards[i]), id: i}
			} else {
				i64[i], is[i] = negInts[i], int(negInts[i])
				v = is[i]
			}
			anyVals[i] = v
			if idx := rm.SimpleIndex(v); !single && idx != e.shards[i] {
				return nil, false // the script must state the shard remap routes this key to
			}
		}
		if !single {
			e.pureVals, e.rm = anyVals, remap.NewReMap(opt)
		}
		switch {
		case e.kind == "kl":
			e.lk = &anyLocker{l: keylock.NewKeyLocker(), vals: anyVals}
		case e.kind == "klg":
			e.lk = &anyLocker{l: keylock.NewKeyLockeGrp(opt), vals: anyVals}
		case e.hash == "n64" && e.kind == "tkl":
			e.lk = &tLocker[int64]{l: keylock.NewTKeyLocker[int64](), vals: i64, mk: func(k int) int64 { return int64(1000000 + k) }}
		case e.hash == "n64":
			e.lk = &tLocker[int64]{l: keylock.NewTKeyLockeGrp[int64](opt), vals: i64, mk: func(k int) int64 { return int64(1000000 + k) }}
		case e.kind == "tkl":
			e.lk = &tLocker[int]{l: keylock.NewTKeyLocker[int](), vals: is, mk: func(k int) int { return 1000000 + k }}
		default:
			e.lk = &tLocker[int]{l: keylock.NewTKeyLockeGrp[int](opt), vals: is, mk: func(k int) int { return 1000000 + k }}
		}
		return e, true
	}
	ints, strs, ok := keyValues(e.hash, uint64(e.prime), single, e.shards)
	if !ok {
		return nil, false
	}
	if !single {
		e.rm, e.xhash = remap.NewReMap(opt), e.hash == "xh"
		for i := 0; i < e.K; i++ {
			if e.hash == "str" {
				e.pureVals = append(e.pureVals, strs[i])
			} else {
				e.pureVals = append(e.pureVals, ints[i])
			}
		}
	}
	switch {
	case e.kind == "kl" || e.kind == "klg":
		vals := make([]interface{}, e.K)
		for i := range vals {
			if e.hash == "str" {
				vals[i] = strs[i]
			} else {
				vals[i] = ints[i]
			}
		}
		if e.kind == "kl" && e.hash == "mod" {
			vals[0] = nil // the nil interface is a valid map key
		}
		var l keylock.Locker
		switch {
		case e.kind == "kl":
			l = keylock.NewKeyLocker()
		case e.hash == "xh":
			l = keylock.NewXHashKeyLockeGrp(opt)
		default:
			l = keylock.NewKeyLockeGrp(opt)
		}
		e.lk = &anyLocker{l: l, vals: vals, str: e.hash == "str"}
	case e.hash == "str":
		var l keylock.TLocker[string]
		if e.kind == "tkl" {
			l = keylock.NewTKeyLocker[string]()
		} else {
			l = keylock.NewTKeyLockeGrp[string](opt)
		}
		e.lk = &tLocker[string]{l: l, vals: strs, mk: func(k int) string { return "x-" + strconv.Itoa(k) }}
	default:
		var l keylock.TLocker[int]
		switch {
		case e.kind == "tkl":
			l = keylock.NewTKeyLocker[int]()
		case e.hash == "xh":
			l = keylock.NewTXHashTKeyLockeGrp[int](opt)
		default:
			l = keylock.NewTKeyLockeGrp[int](opt)
		}
		e.lk = &tLocker[int]{l: l, vals: ints, mk: func(k int) int { return 1000000 + k }}
	}
	return e, true
}

// parseInitOdd: key kinds outside remap's routable domain. `ptr`: pointer keys (fine on the single lockers: identity;
// unroutable on the group lockers). `flt`: float64 keys 0.0, -0.0 (ONE key: 0.0 == -0.0), 1.5, 2.5 … on group lockers only.
func parseInitOdd(e *env, nums []int, single bool) (*env, bool) {
	if len(nums) < 3 {
		return nil, false
	}
	e.prime, e.N, e.K, e.shards = nums[0], nums[1], nums[2], nums[3:]
	if e.prime < 1 || e.prime > 100 || e.N < 1 || e.N > 48 || e.K < 1 || e.K > 48 || len(e.shards) != e.K || (single && e.prime != 1) || (e.hash == "flt" && single) {
		return nil, false
	}
	for _, s := range e.shards {
		if s >= e.prime {
			return nil, false
		}
	}
	e.unroutable = !single
	e.alias = make([]int, e.K)
	for i := range e.alias {
		e.alias[i] = i
	}
	opt := remap.WithPrime(uint64(e.prime))
	if e.hash == "ptr" {
		anyVals := make([]interface{}, e.K)
		for i := 0; i < e.K; i++ {
			p := &obj{N: i}
			e.ptrs = append(e.ptrs, p)
			anyVals[i] = p
		}
		switch e.kind {
		case "kl":
			e.lk = &anyLocker{l: keylock.NewKeyLocker(), vals: anyVals}
		case "klg":
			e.lk = &anyLocker{l: keylock.NewKeyLockeGrp(opt), vals: anyVals}
		case "tkl":
			e.lk = &tLocker[*obj]{l: keylock.NewTKeyLocker[*obj](), vals: e.ptrs, mk: func(k int) *obj { return &obj{N: k} }}
		default:
			e.lk = &tLocker[*obj]{l: keylock.NewTKeyLockeGrp[*obj](opt), vals: e.ptrs, mk: func(k int) *obj { return &obj{N: k} }}
		}
		return e, true
	}
	fl := make([]float64, e.K)
	anyVals := make([]interface{}, e.K)
	for i := range fl {
		switch i {
		case 0:
			fl[i] = 0.0
		case 1:
			fl[i] = math.Copysign(0, -1)
			e.alias[1] = 0
		default:
			fl[i] = float64(i) + 0.5
		}
		anyVals[i] = fl[i]
	}
	if e.kind == "klg" {
		e.lk = &anyLocker{l: keylock.NewKeyLockeGrp(opt), vals: anyVals}
	} else {
		e.lk = &tLocker[float64]{l: keylock.NewTKeyLockeGrp[float64](opt), vals: fl, mk: func(k int) float64 { return float64(k) + 0.5 }}
	}
	return e, true
}

type call struct {
	task   *sched.Task
	unlock bool
	write  bool
	multi  bool
	keys   []int
	// cand: the keys this call could be asleep on when it parked (nil once anything was unlocked since)
	cand []int
	// what probes have shown about the call's other keys, by side of cand's shard: held / free below / above
	heldLow, heldHigh, freeLow, freeHigh bool
}

// runner state: bookkeeping from P-observables only (which calls returned)
type runner struct {
	e    *env
	s    *sched.S
	cur  []*call        // outstanding call per thread (nil: outside any call)
	held []map[int]bool // per thread: key -> write?
	// disciplined: every acquisition so far respected the global order (shard index, key id) and lists were ascending
	disciplined bool
	// unroutableSeen: the last call panicked in remap before locking (key kinds ptr / flt on group lockers)
	unroutableSeen bool
	others         []*remap.ReMap // containers created mid-script (`remap p`), kept alive
	hits           []corr.Hit
	hitSeen     map[string]bool
}

func (r *runner) hit(key, what string) {
	if r.hitSeen[key] {
		return
	}
	r.hitSeen[key] = true
	r.hits = append(r.hits, corr.Hit{Key: "C02:" + key, What: what})
}

func parseNat(s string) (int, bool) {
	if s == "" || len(s) > 6 || (len(s) > 1 && s[0] == '0') {
		return 0, false
	}
	for _, c := range s {
		if c < '0' || c > '9' {
			return 0, false
		}
	}
	v, err := strconv.Atoi(s)
	return v, err == nil
}

func parseKeys(s string, K int) ([]int, bool) {
	if s == "-" {
		return []int{}, true
	}
	var out []int
	for _, w := range strings.Split(s, ",") {
		v, ok := parseNat(w)
		if !ok || v >= K {
			return nil, false
		}
		out = append(out, v)
	}
	return out, true
}

func harnessError(err error) {
	fmt.Fprintln(os.Stderr, "C02 harness error:", err)
	os.Exit(2)
}

func (r *runner) rank(k int) int { return r.e.shards[k]*1000 + k }

// settle waits for quiescence and folds finished calls into the bookkeeping.
func (r *runner) settle() {
	if err := r.s.Settle(); err != nil {
		harnessError(err)
	}
	// a task's done flag is set in a deferred function after the last marker frame: wait until flags are stable
	for t, c := range r.cur {
		if c == nil {
			continue
		}
		done, res := c.task.Done()
		if !done {
			continue
		}
		if strings.HasPrefix(res, "panic:") {
			if r.e.unroutable && !c.unlock && strings.Contains(res, "unsupported.type.for.slot") {
				// remap refuses the key type before anything is locked: the call had no effect
				r.unroutableSeen = true
				r.cur[t] = nil
				continue
			}
			r.hit("panic", fmt.Sprintf("a %s call by thread %d on keys %v panicked: %s", map[bool]string{true: "unlock", false: "lock"}[c.unlock], t, c.keys, res))
		}
		if c.multi && !c.unlock && !strings.HasPrefix(res, "panic:") {
			// all held: when Locks/RLocks returns, every listed key is registered in that mode (hook) — the probes of the
			// exclusion monitors are the P-level side of the same clause
			for _, k := range c.keys {
				rc, wc, p := r.e.lk.Counts(k)
				if !p || (c.write && wc < 1) || (!c.write && rc < 1) {
					r.hit("all-held:listed-key-not-held", fmt.Sprintf("%s: a multi-key lock call by thread %d over %d keys returned, yet key %d of the list (position %d) is not held in that mode (entry present=%v readCount=%d writeCount=%d)", r.e.kind, t, len(c.keys), k, r.acqPos(c.keys, k), p, rc, wc))
					break
				}
			}
		}
		for _, k := range c.keys {
			if c.unlock {
				delete(r.held[t], k)
			} else {
				r.held[t][k] = c.write
			}
		}
		r.cur[t] = nil
	}
}

func (r *runner) status() string {
	b := make([]byte, r.e.N)
	for t := range b {
		if r.cur[t] == nil {
			b[t] = '-'
		} else {
			b[t] = 'P'
		}
	}
	return string(b)
}

// monitors: the property restated on P-observables (which calls have returned), independent of the Lean model
func (r *runner) monitors(op string) {
	r.routeMonitor(op)
	kind := r.e.kind
	// (1) exclusion
	cls := func(k int) int {
		if r.e.alias != nil && k < len(r.e.alias) {
			return r.e.alias[k] // equal keys (0.0 / -0.0) are one key
		}
		return k
	}
	wsOf, rsOf := map[int][]int{}, map[int][]int{}
	var classes []int
	for t := 0; t < r.e.N; t++ {
		for k, w := range r.held[t] {
			c := cls(k)
			if len(wsOf[c])+len(rsOf[c]) == 0 {
				classes = append(classes, c)
			}
			if w {
				wsOf[c] = append(wsOf[c], t)
			} else {
				rsOf[c] = append(rsOf[c], t)
			}
		}
	}
	sort.Ints(classes)
	for _, k := range classes {
		ws, rs := wsOf[k], rsOf[k]
		if len(ws) > 1 {
			r.hit("excl:two-writers", fmt.Sprintf("%s: key %d is write-locked by threads %v at once (after `%s`)", kind, k, ws, op))
		}
		if len(ws) >= 1 && len(rs) >= 1 {
			r.hit("excl:writer-with-readers", fmt.Sprintf("%s: key %d is write-locked by %v while read-locked by %v (after `%s`)", kind, k, ws, rs, op))
		}
	}
	// (2) independence / progress: a parked call must have a key on which another thread holds or awaits a conflicting lock
	for t, c := range r.cur {
		if c == nil {
			continue
		}
		if c.unlock {
			r.hit("unlock-blocked", fmt.Sprintf("%s: an unlock call by thread %d on keys %v did not return (after `%s`)", kind, t, c.keys, op))
			continue
		}
		conflict := false
		for _, k := range c.keys {
			for u := 0; u < r.e.N; u++ {
				if u == t {
					continue
				}
				if w, ok := r.held[u][k]; ok && (w || c.write) {
					conflict = true
				}
				if cu := r.cur[u]; cu != nil && !cu.unlock && (cu.write || c.write) {
					for _, k2 := range cu.keys {
						if k2 == k {
							conflict = true
						}
					}
				}
			}
		}
		if !conflict {
			r.hit("independence:blocked-without-conflict", fmt.Sprintf("%s: thread %d is parked in a lock call on keys %v (write=%v) although no other thread holds or awaits a conflicting lock on any of them (after `%s`)", kind, t, c.keys, c.write, op))
		}
	}
	// (3) reclaim: nobody holds or awaits anything => no per-key state
	idle := true
	for t := 0; t < r.e.N; t++ {
		if r.cur[t] != nil || len(r.held[t]) > 0 {
			idle = false
		}
	}
	if idle {
		if n := r.e.lk.Entries(); n != 0 {
			r.hit("leak:entries-after-release", fmt.Sprintf("%s: every lock has been released, yet the locker retains %d per-key entries (after `%s`)", kind, n, op))
		}
	}
}

func (r *runner) doCall(t int, unlock, write bool, keys []int, multi bool) string {
	if r.cur[t] != nil {
		return "busy"
	}
	seen := map[int]bool{}
	for _, k := range keys {
		if seen[k] {
			return "misuse"
		}
		seen[k] = true
		w, ok := r.held[t][k]
		if unlock && (!ok || w != write) {
			return "misuse"
		}
		if !unlock && ok {
			return "misuse"
		}
	}
	if !unlock {
		// discipline (the clause of the property, independent of the group comparator's direction): lists ascending
		// in key id and duplicate free; a caller that already holds locks may only add keys of the same shard with
		// greater ids (on a single locker: any greater id). Nesting across shards needs the locker's own (shard, key)
		// rank, which the property text does not promise — such scripts are run but not judged for deadlock.
		for i, k := range keys {
			if i > 0 && keys[i-1] >= k {
				r.disciplined = false
			}
			for h := range r.held[t] {
				if r.e.shards[h] != r.e.shards[k] || h >= k {
					r.disciplined = false
				}
			}
		}
	}
	pre := map[int][]int{}
	if !unlock {
		pre = r.blockers()
	}
	lk := r.e.lk
	ks := append([]int{}, keys...)
	fn := func() string {
		switch {
		case multi && unlock && write:
			lk.Unlocks(ks)
		case multi && unlock:
			lk.RUnlocks(ks)
		case multi && write:
			lk.Locks(ks)
		case multi:
			lk.RLocks(ks)
		case unlock && write:
			lk.Unlock(ks[0])
		case unlock:
			lk.RUnlock(ks[0])
		case write:
			lk.Lock(ks[0])
		default:
			lk.RLock(ks[0])
		}
		return "ok"
	}
	r.unroutableSeen = false
	r.cur[t] = &call{task: r.s.Go(fmt.Sprintf("t%d", t), fn), unlock: unlock, write: write, multi: multi, keys: ks}
	r.settle()
	if r.unroutableSeen {
		return "unroutable"
	}
	if unlock {
		// a parked call that could be asleep on one of the released keys may have moved on: its blockers are no longer known
		for _, c := range r.cur {
			if c == nil {
				continue
			}
			for _, x := range c.cand {
				for _, k := range ks {
					if x == k {
						c.cand = nil
					}
				}
			}
		}
	}
	if !unlock && r.cur[t] == nil {
		r.orderMonitor(t, write, ks, pre)
		r.shardOrderProbe(t, write, ks, false)
	}
	if !unlock && r.cur[t] != nil {
		r.cur[t].cand = pre2cand(r.blockers()[t])
		if len(ks) == 1 {
			r.shardOrderProbe(t, write, ks, true)
		}
	}
	return r.status()
}

func pre2cand(x []int) []int {
	if len(x) == 0 {
		return nil
	}
	return x
}

// shardOrderProbe: what a single-key probe tells about the keys a parked multi-key call M holds. M took its shards in ONE
// monotone order (whatever its direction) and sleeps in the shard of its blockers, so relative to that shard its other keys
// are all held on one side and all free on the other. A probe that parks on a key only M can hold shows "held"; a probe
// that gets a key of M at once shows "free". Held and free on the same side, or held on both sides, or free on both sides,
// contradicts every monotone shard order.
func (r *runner) shardOrderProbe(t int, write bool, keys []int, parked bool) {
	for m, c := range r.cur {
		if m == t || c == nil || c.unlock || !c.multi || len(c.cand) == 0 {
			continue
		}
		sb := r.e.shards[c.cand[0]]
		one := true
		for _, x := range c.cand {
			if r.e.shards[x] != sb {
				one = false
			}
		}
		if !one {
			continue
		}
		for _, a := range keys {
			if r.acqPos(c.keys, a) < 0 || !(c.write || write) || r.e.shards[a] == sb {
				continue
			}
			if parked {
				// only M can be the reason: nobody holds `a` by a returned call, no other parked call lists it
				sole := true
				for u := 0; u < r.e.N; u++ {
					if u == t || u == m {
						continue
					}
					if _, ok := r.held[u][a]; ok {
						sole = false
					}
					if cu := r.cur[u]; cu != nil && r.acqPos(cu.keys, a) >= 0 {
						sole = false
					}
				}
				if !sole {
					continue
				}
				if r.e.shards[a] < sb {
					c.heldLow = true
				} else {
					c.heldHigh = true
				}
			} else if r.e.shards[a] < sb {
				c.freeLow = true
			} else {
				c.freeHigh = true
			}
			if (c.heldLow && c.freeLow) || (c.heldHigh && c.freeHigh) || (c.heldLow && c.heldHigh) || (c.freeLow && c.freeHigh) {
				r.hit("order:parked-call-shard-order-inconsistent", fmt.Sprintf("%s: thread %d is parked in a multi-key lock call over %d keys, asleep in shard %d (blockers %v); probes show keys of lower shards held=%v free=%v and keys of higher shards held=%v free=%v — no monotone order of the shards explains that (last probe: key %d in shard %d, thread %d %s)", r.e.kind, m, len(c.keys), sb, c.cand, c.heldLow, c.freeLow, c.heldHigh, c.freeHigh, a, r.e.shards[a], t, map[bool]string{true: "parked", false: "got it at once"}[parked]))
			}
		}
	}
}

// acqPos: list position of key k in keys (-1 if absent). Within one shard a call takes its keys in list order; the
// order between shards is the group comparator's business and is not assumed here.
func (r *runner) acqPos(keys []int, k int) int {
	for i, x := range keys {
		if x == k {
			return i
		}
	}
	return -1
}

// blockers: for every parked lock call M, the keys of M on which some other thread holds or awaits a conflicting
// lock — M can only be asleep on one of these (P-level bookkeeping, conservative: more candidates, fewer alarms).
func (r *runner) blockers() map[int][]int {
	out := map[int][]int{}
	for m, c := range r.cur {
		if c == nil || c.unlock {
			continue
		}
		out[m] = []int{}
		for _, x := range c.keys {
			cand := false
			for u := 0; u < r.e.N; u++ {
				if u == m {
					continue
				}
				if w, ok := r.held[u][x]; ok && (w || c.write) {
					cand = true
				}
				if cu := r.cur[u]; cu != nil && !cu.unlock && (cu.write || c.write) {
					for _, y := range cu.keys {
						if y == x {
							cand = true
						}
					}
				}
			}
			if cand {
				out[m] = append(out[m], x)
			}
		}
	}
	return out
}

// orderMonitor: thread t has just obtained `keys` without waiting. A lock call M that was (and still is) parked must
// already hold every key that precedes, in the documented acquisition order, all keys it can possibly be asleep on;
// if t obtained such a key in a conflicting mode, M did not take its keys in that order.
func (r *runner) orderMonitor(t int, write bool, keys []int, pre map[int][]int) {
	for m, cand := range pre {
		c := r.cur[m]
		if m == t || c == nil || c.unlock || len(cand) == 0 {
			continue
		}
		for _, a := range keys {
			pa := r.acqPos(c.keys, a)
			if pa < 0 || !(c.write || write) {
				continue
			}
			before := true
			for _, x := range cand {
				if r.e.shards[x] != r.e.shards[a] || r.acqPos(c.keys, x) <= pa {
					before = false
				}
			}
			if before {
				r.hit("order:parked-call-skipped-earlier-key", fmt.Sprintf("%s: thread %d is parked in a lock call on keys %v (write=%v); it can only be asleep on one of %v, all of which are in the shard of key %d and come after it in the list, so it must hold key %d — yet thread %d obtained key %d (write=%v) without waiting", r.e.kind, m, c.keys, c.write, cand, a, a, t, a, write))
			}
		}
	}
}

// burst: the fold of single-key calls over keys lo..hi-1 by thread t, stopping when t parks (keys it already holds /
// does not hold in that mode are skipped). Extra key ids (>= K of the init line) live in shard 0 of a 1-shard locker.
func (r *runner) growTo(hi int) {
	if hi > r.e.K {
		r.e.lk.Grow(hi)
		for k := r.e.K; k < hi; k++ {
			r.e.shards = append(r.e.shards, 0)
			if r.e.alias != nil {
				r.e.alias = append(r.e.alias, k)
			}
		}
		r.e.K = hi
	}
}

func (r *runner) burst(t int, unlock, write bool, lo, hi int) string {
	r.growTo(hi)
	for k := lo; k < hi; k++ {
		if r.cur[t] != nil {
			break
		}
		w, held := r.held[t][k]
		if (unlock && (!held || w != write)) || (!unlock && held) {
			continue
		}
		r.doCall(t, unlock, write, []int{k}, false)
		if len(r.hits) > 0 {
			break
		}
	}
	return r.status()
}

func (r *runner) drain() string {
	for pass := 0; pass < 1000; pass++ {
		did := false
		for t := 0; t < r.e.N && !did; t++ {
			if r.cur[t] != nil || len(r.held[t]) == 0 {
				continue
			}
			var ks []int
			for k := range r.held[t] {
				ks = append(ks, k)
			}
			sort.Ints(ks)
			r.doCall(t, true, r.held[t][ks[0]], []int{ks[0]}, false)
			did = true
		}
		if !did {
			break
		}
	}
	var stuck []int
	for t := 0; t < r.e.N; t++ {
		if r.cur[t] != nil {
			stuck = append(stuck, t)
		}
	}
	if len(stuck) > 0 && r.disciplined {
		r.hit("deadlock:ordered-callers-stuck", fmt.Sprintf("%s: every call used an ascending duplicate-free key list, callers that already held locks only added greater keys of the same shard, and everything that could be released was released, yet threads %v never returned", r.e.kind, stuck))
	}
	return r.status()
}

// stress: g goroutines hammer a FRESH locker of the script's shape in true parallel (no scheduler): every critical
// section checks per-key occupancy counters. Interleavings inside the table-mutex sections are exercised here only.
func (r *runner) stress(g, iters int) string {
	e, ok := parseInit(r.e.fields)
	if !ok {
		return "bad-op"
	}
	K := e.K
	writers := make([]atomic.Int32, K)
	readers := make([]atomic.Int32, K)
	var bad atomic.Int32
	var firstBad atomic.Value
	var panics atomic.Value
	var wg sync.WaitGroup
	for gi := 0; gi < g; gi++ {
		wg.Add(1)
		go func(gi int) {
			defer wg.Done()
			defer func() {
				if p := recover(); p != nil {
					panics.Store(fmt.Sprint(p))
				}
			}()
			rg := rng.New(uint64(1000*iters + gi))
			for i := 0; i < iters; i++ {
				write := rg.Bool()
				var ks []int
				if e.lk.Multi() && rg.Chance(1, 3) {
					for k := 0; k < K; k++ {
						if rg.Chance(1, 2) {
							ks = append(ks, k)
						}
					}
				}
				multi := len(ks) > 0
				if !multi {
					ks = []int{rg.Intn(K)}
				}
				switch {
				case multi && write:
					e.lk.Locks(ks)
				case multi:
					e.lk.RLocks(ks)
				case write:
					e.lk.Lock(ks[0])
				default:
					e.lk.RLock(ks[0])
				}
				for _, k := range ks {
					if write {
						if writers[k].Add(1) != 1 || readers[k].Load() != 0 {
							bad.Add(1)
							firstBad.CompareAndSwap(nil, fmt.Sprintf("key %d: a writer is inside with %d writers and %d readers", k, writers[k].Load(), readers[k].Load()))
						}
					} else {
						readers[k].Add(1)
						if writers[k].Load() != 0 {
							bad.Add(1)
							firstBad.CompareAndSwap(nil, fmt.Sprintf("key %d: a reader is inside with %d writers", k, writers[k].Load()))
						}
					}
				}
				runtime.Gosched()
				for _, k := range ks {
					if write {
						writers[k].Add(-1)
					} else {
						readers[k].Add(-1)
					}
				}
				switch {
				case multi && write:
					e.lk.Unlocks(ks)
				case multi:
					e.lk.RUnlocks(ks)
				case write:
					e.lk.Unlock(ks[0])
				default:
					e.lk.RUnlock(ks[0])
				}
			}
		}(gi)
	}
	done := make(chan struct{})
	go func() { wg.Wait(); close(done) }()
	select {
	case <-done:
	case <-time.After(8 * time.Second):
		r.hit("concurrency:stall", fmt.Sprintf("%s: %d goroutines doing lock/critical section/unlock rounds (multi-key lists ascending) did not finish within 8 s", e.kind, g))
		return "ok"
	}
	if p := panics.Load(); p != nil {
		r.hit("concurrency:panic", fmt.Sprintf("%s: a goroutine of the parallel stress run panicked: %v", e.kind, p))
	}
	if bad.Load() > 0 {
		r.hit("concurrency:exclusion-counter", fmt.Sprintf("%s: %d critical sections saw a conflicting occupant under %d parallel goroutines; first: %v", e.kind, bad.Load(), g, firstBad.Load()))
	}
	if n := e.lk.Entries(); n != 0 && p0(panics.Load()) {
		r.hit("concurrency:leak", fmt.Sprintf("%s: after the parallel stress run every lock is released, yet %d entries remain", e.kind, n))
	}
	return "ok"
}

func p0(v interface{}) bool { return v == nil }

func runScript(c corr.Case) corr.Result { return runScriptStream(c, func(string) {}) }

func runScriptStream(c corr.Case, emit func(string)) (res corr.Result) {
	var r *runner
	defer func() {
		if p := recover(); p != nil {
			for len(res.Outs) < len(c.Lines) {
				res.Outs = append(res.Outs, fmt.Sprintf("panic:%v", p))
				emit(fmt.Sprintf("panic:%v", p))
			}
		}
	}()
	for _, line := range c.Lines {
		f := strings.Fields(line)
		out := "bad-op"
		if r != nil && len(r.hits) > 0 {
			// a property monitor fired: the locker's state can no longer be trusted (a further unlock may hit
			// "fatal error: sync: Unlock of unlocked RWMutex", which cannot be recovered) — stop driving it
			res.Outs = append(res.Outs, "stopped-after-violation")
			emit("stopped-after-violation")
			continue
		}
		switch {
		case len(f) > 0 && f[0] == "init":
			if e, ok := parseInit(f); ok {
				r = &runner{e: e, s: sched.New(), cur: make([]*call, e.N), held: make([]map[int]bool, e.N), disciplined: true, hitSeen: map[string]bool{}}
				for i := range r.held {
					r.held[i] = map[int]bool{}
				}
				out = "ok"
			} else {
				r = nil
			}
		case r == nil:
		case len(f) == 3 && (f[0] == "lock" || f[0] == "rlock" || f[0] == "unlock" || f[0] == "runlock"):
			t, ok1 := parseNat(f[1])
			k, ok2 := parseNat(f[2])
			if ok1 && ok2 && t < r.e.N && k < r.e.K {
				out = r.doCall(t, strings.HasSuffix(f[0], "unlock"), f[0] == "lock" || f[0] == "unlock", []int{k}, false)
				r.monitors(line)
			}
		case len(f) == 3 && (f[0] == "locks" || f[0] == "rlocks" || f[0] == "unlocks" || f[0] == "runlocks"):
			t, ok1 := parseNat(f[1])
			ks, ok2 := parseKeys(f[2], r.e.K)
			if ok1 && ok2 && t < r.e.N && r.e.lk.Multi() {
				out = r.doCall(t, strings.HasSuffix(f[0], "unlocks"), f[0] == "locks" || f[0] == "unlocks", ks, true)
				r.monitors(line)
			}
		case len(f) == 2 && f[0] == "counts":
			if k, ok := parseNat(f[1]); ok && k < r.e.K {
				rc, wc, p := r.e.lk.Counts(k)
				out = fmt.Sprintf("r=%d w=%d p=%d", rc, wc, map[bool]int{true: 1, false: 0}[p])
			}
		case len(f) == 1 && f[0] == "entries":
			out = strconv.Itoa(r.e.lk.Entries())
		case len(f) == 5 && (f[0] == "burst" || f[0] == "unburst"):
			t, ok1 := parseNat(f[1])
			lo, ok2 := parseNat(f[3])
			hi, ok3 := parseNat(f[4])
			if ok1 && ok2 && ok3 && (f[2] == "w" || f[2] == "r") && t < r.e.N && r.e.prime == 1 && lo < hi && hi <= 2048 && hi-lo <= 1600 {
				out = r.burst(t, f[0] == "unburst", f[2] == "w", lo, hi)
				r.monitors(line)
			}
		case len(f) == 5 && (f[0] == "lockrange" || f[0] == "unlockrange"):
			t, ok1 := parseNat(f[1])
			lo, ok2 := parseNat(f[3])
			hi, ok3 := parseNat(f[4])
			if ok1 && ok2 && ok3 && (f[2] == "w" || f[2] == "r") && t < r.e.N && r.e.prime == 1 && r.e.lk.Multi() && lo < hi && hi <= 8192 && hi-lo <= 6500 {
				r.growTo(hi)
				ks := make([]int, 0, hi-lo)
				for k := lo; k < hi; k++ {
					ks = append(ks, k)
				}
				out = r.doCall(t, f[0] == "unlockrange", f[2] == "w", ks, true)
				r.monitors(line)
			}
		case len(f) == 2 && f[0] == "remap":
			if p, ok := parseNat(f[1]); ok && p >= 1 && p <= 100 {
				r.otherContainers(p)
				out = "ok"
				r.monitors(line)
			}
		case len(f) == 2 && f[0] == "mutate":
			if k, ok := parseNat(f[1]); ok && k < r.e.K {
				if k < len(r.e.ptrs) {
					r.e.ptrs[k].N += 1000 // the pointee changes, the key (the pointer) does not
				}
				out = "ok"
			}
		case len(f) == 3 && f[0] == "stress":
			g, ok1 := parseNat(f[1])
			it, ok2 := parseNat(f[2])
			if ok1 && ok2 && g >= 1 && g <= 16 && it >= 1 && it <= 5000 {
				out = r.stress(g, it)
			}
		case len(f) == 1 && f[0] == "drain":
			out = r.drain()
			r.monitors(line)
		}
		res.Outs = append(res.Outs, out)
		emit(out)
	}
	if r != nil {
		if len(r.hits) == 0 {
			// release whatever can still be released so that no goroutine of this script stays parked
			r.drain()
		}
		res.Hits = r.hits
	}
	return res
}
