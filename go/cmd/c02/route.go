package main

import (
	"encoding/binary"
	"fmt"
	"math"
	"sort"

	"github.com/cespare/xxhash/v2"
	"github.com/pinealctx/neptune/remap"
	"github.com/pinealctx/neptune/syncx/keylock"
)

// Routing is a PURE function of (key bytes, shard count): written out here independently of package remap (xxhash is a
// third-party module). The lockers must route a key the same way at every moment of a script, whatever other ReMaps or
// lockers the process creates and whatever other keys were looked up before.

func pureSearchIndex(x uint64, n uint64) int {
	y := uint64(math.MaxUint64) / n
	i := sort.Search(int(n), func(i int) bool {
		b := y * (uint64(i) + 1)
		if uint64(i) == n-1 {
			b = math.MaxUint64
		}
		return b >= x
	})
	if i < 0 || i >= int(n) {
		return 0
	}
	return i
}

func le64(v uint64) []byte {
	var b [8]byte
	binary.LittleEndian.PutUint64(b[:], v)
	return b[:]
}

// pureIndex: the shard of a key value under modulo (xhash=false) or xxhash routing with n shards.
func pureIndex(v interface{}, n uint64, xhash bool) int {
	switch x := v.(type) {
	case int:
		if !xhash {
			return int(uint64(x) % n)
		}
		return pureSearchIndex(xxhash.Sum64(le64(uint64(x))), n)
	case int64:
		if !xhash {
			return int(uint64(x) % n)
		}
		return pureSearchIndex(xxhash.Sum64(le64(uint64(x))), n)
	case string:
		return pureSearchIndex(xxhash.Sum64String(x), n)
	case hitKey:
		if !xhash {
			return int(x.hit % n)
		}
		return pureSearchIndex(xxhash.Sum64(le64(x.hit)), n)
	case *bsKey:
		return pureSearchIndex(xxhash.Sum64(x.tokCopy), n)
	}
	return -1
}

// bsKey implements remap.Bs and OWNS the slice it returns (no fresh copy per call, cap >= 8): the key is the pointer.
type bsKey struct {
	tok     []byte
	tokCopy []byte // what the token was when the key was made (never handed out)
}

func (b *bsKey) ToBytes() []byte { return b.tok }

func newBsKey(i int) *bsKey {
	t := []byte(fmt.Sprintf("bs-token-%04d-owned", i))
	return &bsKey{tok: t, tokCopy: append([]byte{}, t...)}
}

// colInts: ints whose xxhash digests agree in the low 32 bits (73747, 90880) and a third one that shares only the low 10 bits
// with them (found by search), then ordinary ones.
func colInts(K int) []int {
	out := []int{73747, 90880}
	low := xxhash.Sum64(le64(73747)) & 1023
	for v := 1; len(out) < 3; v++ {
		h := xxhash.Sum64(le64(uint64(v)))
		if h&1023 == low && uint32(h) != uint32(xxhash.Sum64(le64(73747))) {
			out = append(out, v)
		}
	}
	for i := 3; i < K; i++ {
		out = append(out, 5000+i)
	}
	return out[:K]
}

// parseInitRoute: key kinds `bsx` (klg built with the xxhash constructor; even key ids are Bs keys owning their slice, odd ids
// plain ints) and `col` (klg / tkg with the xxhash constructor; colliding ints). The init line must state the pure shard.
func parseInitRoute(e *env, nums []int) (*env, bool) {
	if len(nums) < 3 {
		return nil, false
	}
	e.prime, e.N, e.K, e.shards = nums[0], nums[1], nums[2], nums[3:]
	if e.prime < 1 || e.prime > 100 || e.N < 1 || e.N > 48 || e.K < 1 || e.K > 48 || len(e.shards) != e.K {
		return nil, false
	}
	if (e.hash == "bsx" && e.kind != "klg") || (e.hash == "col" && e.kind != "klg" && e.kind != "tkg") {
		return nil, false
	}
	opt := remap.WithPrime(uint64(e.prime))
	anyVals := make([]interface{}, e.K)
	ints := colInts(e.K)
	for i := range anyVals {
		switch {
		case e.hash == "col":
			anyVals[i] = ints[i]
		case i%2 == 0:
			anyVals[i] = newBsKey(i)
		default:
			anyVals[i] = 7000 + i
		}
		if pureIndex(anyVals[i], uint64(e.prime), true) != e.shards[i] {
			return nil, false
		}
	}
	e.xhash = true
	e.pureVals = anyVals
	if e.kind == "klg" {
		e.lk = &anyLocker{l: keylock.NewXHashKeyLockeGrp(opt), vals: anyVals}
	} else {
		e.lk = &tLocker[int]{l: keylock.NewTXHashTKeyLockeGrp[int](opt), vals: ints, mk: func(k int) int { return 1000000 + k }}
	}
	e.rm = remap.NewReMap(opt)
	return e, true
}

// routeMonitor: (a) the public remap API answers the pure index for every key of the script, at every moment;
// (b) every key held through a returned call is still reachable through the locker's own routing (hook): the unlock will
// reach the entry the lock created.
func (r *runner) routeMonitor(op string) {
	e := r.e
	if e.unroutable {
		return
	}
	if e.rm != nil && e.pureVals != nil {
		for k := 0; k < len(e.pureVals) && k < 48; k++ {
			want := pureIndex(e.pureVals[k], uint64(e.prime), e.xhash)
			if want < 0 {
				continue
			}
			var got int
			func() {
				defer func() {
					if p := recover(); p != nil {
						got = -2
					}
				}()
				if e.xhash {
					got = e.rm.XHashIndex(e.pureVals[k])
				} else {
					got = e.rm.SimpleIndex(e.pureVals[k])
				}
			}()
			if got != want {
				r.hit("route:index-not-pure", fmt.Sprintf("%s: remap routes key %d (%v) to shard %d of %d, but the routing function of the key bytes and the shard count gives %d (after `%s`): routing depends on history or on other containers", e.kind, k, e.pureVals[k], got, e.prime, want, op))
				return
			}
		}
	}
	n := 0
	for t := 0; t < e.N; t++ {
		for k, w := range r.held[t] {
			if n++; n > 64 {
				return
			}
			rc, wc, p := e.lk.Counts(k)
			if !p || (w && wc < 1) || (!w && rc < 1) {
				r.hit("route:held-key-entry-unreachable", fmt.Sprintf("%s: thread %d holds key %d (write=%v), but the locker's lookup of that key finds present=%v readCount=%d writeCount=%d (after `%s`): the unlock will not reach the entry the lock created", e.kind, t, k, w, p, rc, wc, op))
				return
			}
		}
	}
}

// otherContainers: `remap p` — the process creates another ReMap and another sharded locker with p shards and uses them.
func (r *runner) otherContainers(p int) {
	defer func() {
		if x := recover(); x != nil {
			r.hit("panic", fmt.Sprintf("creating / using another ReMap and locker with %d shards panicked: %v", p, x))
		}
	}()
	rm := remap.NewReMap(remap.WithPrime(uint64(p)))
	for i := 0; i < 4; i++ {
		_ = rm.XHashIndex(90000 + i)
		_ = rm.SimpleIndex("probe-" + fmt.Sprint(i))
	}
	g := keylock.NewXHashKeyLockeGrp(remap.WithPrime(uint64(p)))
	for i := 0; i < 4; i++ {
		g.Lock(777 + i)
		g.Unlock(777 + i)
	}
	r.others = append(r.others, rm)
}
