package main

import (
	"bufio"
	"bytes"
	"context"
	"encoding/json"
	"fmt"
	"os"
	"os/exec"
	"runtime"
	"strings"
	"time"

	"nvharness/lib/corr"
)

// Every script runs on the real implementation in a child process of this binary (`c02 runone`): a locker that
// breaks the property can make the Go runtime abort the whole process ("fatal error: sync: Unlock of unlocked
// RWMutex" cannot be recovered), and a deadlocked script leaves goroutines parked for ever. The child streams one
// result line per op; a crash is turned into a monitor hit with the runtime's message.

func runOne() {
	var lines []string
	sc := bufio.NewScanner(os.Stdin)
	sc.Buffer(make([]byte, 1<<16), 1<<24)
	for sc.Scan() {
		lines = append(lines, sc.Text())
	}
	if len(lines) > 0 && strings.Contains(lines[0], " bsx ") {
		// sync.Pool keeps one private item per P: with one P a buffer handed to a pool is what the next Get returns
		runtime.GOMAXPROCS(1)
	}
	out := bufio.NewWriter(os.Stdout)
	res := runScriptStream(corr.Case{Lines: lines}, func(o string) {
		fmt.Fprintln(out, "O "+o)
		out.Flush()
	})
	b, _ := json.Marshal(res.Hits)
	fmt.Fprintln(out, "H "+string(b))
	out.Flush()
	os.Exit(0) // parked goroutines of a deadlocked script die with the process
}

func runIsolated(c corr.Case) corr.Result {
	ctx, cancel := context.WithTimeout(context.Background(), 120*time.Second)
	defer cancel()
	cmd := exec.CommandContext(ctx, os.Args[0], "runone")
	cmd.Stdin = strings.NewReader(strings.Join(c.Lines, "\n") + "\n")
	var stdout, stderr bytes.Buffer
	cmd.Stdout, cmd.Stderr = &stdout, &stderr
	err := cmd.Run()
	if ctx.Err() != nil {
		harnessError(fmt.Errorf("script child timed out: %v\n%s", c.Lines, stderr.String()))
	}
	var res corr.Result
	done := false
	for _, l := range strings.Split(stdout.String(), "\n") {
		switch {
		case strings.HasPrefix(l, "O "):
			res.Outs = append(res.Outs, l[2:])
		case strings.HasPrefix(l, "H "):
			_ = json.Unmarshal([]byte(l[2:]), &res.Hits)
			done = true
		}
	}
	if err != nil || !done {
		msg := firstLine(stderr.String())
		if ee, ok := err.(*exec.ExitError); ok && ee.ExitCode() == 2 && strings.Contains(stderr.String(), "C02 harness error") {
			harnessError(fmt.Errorf("script child: %s", stderr.String()))
		}
		if !strings.HasPrefix(msg, "fatal error:") && !strings.HasPrefix(msg, "panic:") {
			harnessError(fmt.Errorf("script child died: %v: %s", err, stderr.String()))
		}
		at := len(res.Outs)
		op := ""
		if at < len(c.Lines) {
			op = c.Lines[at]
		}
		key := "C02:crash:" + crashKind(msg)
		if strings.Contains(msg, "concurrent map") {
			key = "C02:concurrency:concurrent-map-access"
		}
		res.Hits = append(res.Hits, corr.Hit{Key: key,
			What: fmt.Sprintf("the Go runtime aborted the process during `%s` (op %d of the script): %s", op, at, msg)})
		for len(res.Outs) < len(c.Lines) {
			res.Outs = append(res.Outs, "crashed")
		}
	}
	for len(res.Outs) < len(c.Lines) {
		res.Outs = append(res.Outs, "missing")
	}
	return res
}

func firstLine(s string) string {
	for _, l := range strings.Split(s, "\n") {
		if strings.HasPrefix(l, "fatal error:") || strings.HasPrefix(l, "panic:") {
			return strings.TrimSpace(l)
		}
	}
	if i := strings.Index(s, "\n"); i >= 0 {
		return s[:i]
	}
	return s
}

func crashKind(msg string) string {
	switch {
	case strings.Contains(msg, "Unlock of unlocked RWMutex"):
		return "unlock-of-unlocked-rwmutex"
	case strings.Contains(msg, "RUnlock of unlocked RWMutex"):
		return "runlock-of-unlocked-rwmutex"
	case strings.Contains(msg, "all goroutines are asleep"):
		return "all-goroutines-asleep"
	}
	return "runtime-abort"
}
