package main

import (
	"fmt"
	"sort"
	"strconv"
	"strings"

	"github.com/pinealctx/neptune/remap"

	"nvharness/lib/corr"
	"nvharness/lib/rng"
)

// ---- a rough simulation used ONLY to generate mostly-valid scripts (who is probably parked / holds what)

type simKey struct {
	writer  int
	readers map[int]bool
	pend    []int // tids, FIFO; mode is in the thread
}

type simThread struct {
	todo   []int
	write  bool
	parked bool
	held   map[int]bool
}

type sim struct {
	group  bool
	shards []int
	keys   []*simKey
	th     []*simThread
}

func newSim(group bool, N int, shards []int) *sim {
	s := &sim{group: group, shards: shards}
	for range shards {
		s.keys = append(s.keys, &simKey{writer: -1, readers: map[int]bool{}})
	}
	for i := 0; i < N; i++ {
		s.th = append(s.th, &simThread{held: map[int]bool{}})
	}
	return s
}

func (s *sim) order(keys []int) []int {
	ks := append([]int{}, keys...)
	if s.group {
		sort.SliceStable(ks, func(i, j int) bool { return s.shards[ks[i]] < s.shards[ks[j]] })
	}
	return ks
}

func (s *sim) pendingWriter(k *simKey) bool {
	for _, t := range k.pend {
		if s.th[t].write {
			return true
		}
	}
	return false
}

func (s *sim) proceed(t int) {
	th := s.th[t]
	for len(th.todo) > 0 {
		k := s.keys[th.todo[0]]
		can := k.writer < 0 && !s.pendingWriter(k)
		if th.write {
			can = can && len(k.readers) == 0
		}
		if !can {
			k.pend = append(k.pend, t)
			th.parked = true
			return
		}
		if th.write {
			k.writer = t
		} else {
			k.readers[t] = true
		}
		th.held[th.todo[0]] = th.write
		th.todo = th.todo[1:]
	}
	th.parked = false
}

func (s *sim) call(t int, write bool, keys []int) {
	th := s.th[t]
	th.write, th.todo = write, s.order(keys)
	s.proceed(t)
}

func (s *sim) unlock(t, kid int) {
	k := s.keys[kid]
	w := s.th[t].held[kid]
	delete(s.th[t].held, kid)
	var admitted []int
	if w {
		k.writer = -1
		var rest []int
		for _, u := range k.pend {
			if !s.th[u].write {
				admitted = append(admitted, u)
			} else {
				rest = append(rest, u)
			}
		}
		if len(admitted) > 0 {
			k.pend = rest
		}
	} else {
		delete(k.readers, t)
	}
	if len(admitted) == 0 && k.writer < 0 && len(k.readers) == 0 {
		for i, u := range k.pend {
			if s.th[u].write {
				admitted = []int{u}
				k.pend = append(append([]int{}, k.pend[:i]...), k.pend[i+1:]...)
				break
			}
		}
	}
	for _, u := range admitted {
		th := s.th[u]
		if th.write {
			k.writer = u
		} else {
			k.readers[u] = true
		}
		th.held[kid] = th.write
		th.todo = th.todo[1:]
	}
	for _, u := range admitted {
		s.proceed(u)
	}
}

func keyList(ks []int) string {
	if len(ks) == 0 {
		return "-"
	}
	var p []string
	for _, k := range ks {
		p = append(p, strconv.Itoa(k))
	}
	return strings.Join(p, ",")
}

type shape struct {
	kind, hash string
	prime      int
	N, K       int
	shards     []int
}

func (sh shape) init() string {
	var p []string
	for _, s := range sh.shards {
		p = append(p, strconv.Itoa(s))
	}
	return fmt.Sprintf("init %s %s %d %d %d %s", sh.kind, sh.hash, sh.prime, sh.N, sh.K, strings.Join(p, " "))
}

func genShape(r *rng.R, wantMulti bool) shape {
	sh := shape{}
	if wantMulti {
		sh.kind = r.Pick("tkl", "tkg", "tkg")
	} else {
		sh.kind = r.Pick("kl", "klg", "tkl", "tkg")
	}
	sh.hash = r.Pick("mod", "xh", "str")
	sh.N, sh.K = r.Range(2, 5), r.Range(1, 4)
	sh.prime = 1
	if sh.kind == "klg" || sh.kind == "tkg" {
		sh.prime = r.PickInt(1, 2, 2, 3, 73)
	}
	pattern := r.Intn(4)
	for i := 0; i < sh.K; i++ {
		switch {
		case sh.prime == 1:
			sh.shards = append(sh.shards, 0)
		case pattern == 0: // all keys in one shard
			sh.shards = append(sh.shards, sh.prime-1)
		case pattern == 1 && sh.prime >= sh.K: // shard order opposite to key order
			sh.shards = append(sh.shards, sh.K-1-i)
		default:
			sh.shards = append(sh.shards, r.Intn(sh.prime))
		}
	}
	return sh
}

// genScript: ordered => every acquisition respects the global order (shard, key id), lists ascending and duplicate free.
func genScript(r *rng.R, tag string, ordered bool, wantMulti bool, hot bool, n int) corr.Case {
	return genScriptShape(r, genShape(r, wantMulti), tag, ordered, hot, n)
}

// negShape: negative / extreme int keys (int or int64) on the modulo-routed lockers; the shard of each key is what the
// public remap API says (uint64(v) % shards), so single-key and multi-key calls must agree on it.
func negShape(r *rng.R) shape {
	sh := shape{kind: r.Pick("tkg", "tkg", "tkg", "klg", "tkl"), hash: r.Pick("neg", "neg", "n64"), N: r.Range(2, 5), K: r.Range(1, 4), prime: r.PickInt(2, 3, 73, 73)}
	if sh.kind == "klg" {
		sh.hash = "neg"
	}
	if sh.kind == "tkl" {
		sh.prime = 1
	}
	rm := remap.NewReMap(remap.WithPrime(uint64(sh.prime)))
	for i := 0; i < sh.K; i++ {
		if sh.prime == 1 {
			sh.shards = append(sh.shards, 0)
		} else {
			sh.shards = append(sh.shards, rm.SimpleIndex(int(negInts[i])))
		}
	}
	return sh
}

// hitShape: keys implementing remap.HitGroup on KeyLocker / KeyLockerGrp; keys routed to one shard have EQUAL Hit() but
// are different keys, so holding one must not block the other.
func hitShape(r *rng.R) shape {
	sh := shape{kind: r.Pick("klg", "klg", "kl"), hash: "hit", N: r.Range(2, 5), K: r.Range(2, 4), prime: r.PickInt(1, 2, 3)}
	if sh.kind == "kl" {
		sh.prime = 1
	}
	same := r.Intn(sh.prime)
	for i := 0; i < sh.K; i++ {
		if r.Chance(2, 3) {
			sh.shards = append(sh.shards, same)
		} else {
			sh.shards = append(sh.shards, r.Intn(sh.prime))
		}
	}
	return sh
}

// genWide: ONE multi-key call spanning 13..40 DIFFERENT shards of a 73-shard group (shard order unrelated to key order)
// against short callers and single-key holders: the group comparator must order every number of groups.
//   variant 0: order probe — a contender holds one key; the wide call parks; probes on keys of every other shard (parked
//              probes stay, successful ones release again) must show one monotone shard order;
//   variant 1: a writer X holds a or b, the wide Locks meets a short RLocks [a,b] (deadlock if they take a, b differently);
//   variant 2: H holds g, A: Locks(all), B_i: RLocks [i,i+1] for several i, H unlocks.
func genWide(r *rng.R, variant int) corr.Case {
	K := r.Range(13, 40)
	sh := shape{kind: "tkg", hash: r.Pick("mod", "xh", "str"), prime: 73, K: K}
	perm := make([]int, 73)
	for i := range perm {
		perm[i] = i
	}
	for i := 72; i > 0; i-- {
		j := r.Intn(i + 1)
		perm[i], perm[j] = perm[j], perm[i]
	}
	sh.shards = append(sh.shards, perm[:K]...)
	var list []int
	for k := 0; k < K; k++ {
		list = append(list, k)
	}
	switch variant {
	case 0:
		b := r.Intn(K)
		var others []int
		for _, k := range list {
			if k != b {
				others = append(others, k)
			}
		}
		for len(others) > 14 {
			i := r.Intn(len(others))
			others = append(others[:i], others[i+1:]...)
		}
		sh.N = 2 + len(others)
		mWrite := r.Chance(2, 3)
		lines := []string{sh.init(), fmt.Sprintf("lock 0 %d", b), fmt.Sprintf("%s 1 %s", map[bool]string{true: "locks", false: "rlocks"}[mWrite], keyList(list))}
		for i, a := range others {
			// the probe parks if the wide call holds the key; if it gets the key it gives it back at once (answered `misuse` when it parked)
			lines = append(lines, fmt.Sprintf("lock %d %d", 2+i, a), fmt.Sprintf("unlock %d %d", 2+i, a))
		}
		lines = append(lines, fmt.Sprintf("unlock 0 %d", b), "drain", "entries")
		return corr.Case{Tag: "wide-list-order", Lines: lines}
	case 1:
		a := r.Intn(K - 1)
		b := r.Range(a+1, K-1)
		x := a
		if r.Bool() {
			x = b
		}
		sh.N = 4
		lines := []string{sh.init(), fmt.Sprintf("lock 1 %d", x), fmt.Sprintf("locks 2 %s", keyList(list)), fmt.Sprintf("rlocks 3 %d,%d", a, b), "drain", "entries"}
		return corr.Case{Tag: "wide-list-deadlock", Lines: lines}
	}
	g := r.Intn(K)
	nb := r.Range(4, 10)
	sh.N = 2 + nb
	lines := []string{sh.init(), fmt.Sprintf("lock 0 %d", g), fmt.Sprintf("locks 1 %s", keyList(list))}
	for i := 0; i < nb; i++ {
		a := r.Intn(K - 1)
		lines = append(lines, fmt.Sprintf("rlocks %d %d,%d", 2+i, a, a+1))
	}
	lines = append(lines, fmt.Sprintf("unlock 0 %d", g), "drain", "entries")
	return corr.Case{Tag: "wide-list-many", Lines: lines}
}

// genHuge: one Locks/RLocks call with more than 4096 keys on a 1-shard generic locker; when it returns every listed key —
// also the last ones — must be held (probes park), and the matching multi-key unlock must reclaim everything.
func genHuge(r *rng.R, tier string) corr.Case {
	sh := shape{kind: r.Pick("tkg", "tkg", "tkl"), hash: r.Pick("mod", "str", "xh"), prime: 1, N: 5, K: 2, shards: []int{0, 0}}
	n := r.Range(4100, 4400)
	if tier != "quick" {
		n = r.Range(4100, 6400)
	}
	lo, hi := 48, 48+n
	w := r.Chance(2, 3)
	md := map[bool]string{true: "w", false: "r"}[w]
	lines := []string{sh.init(), fmt.Sprintf("lockrange 0 %s %d %d", md, lo, hi), "entries",
		fmt.Sprintf("lock 1 %d", hi-1), fmt.Sprintf("lock 2 %d", lo), fmt.Sprintf("lock 3 %d", lo+4096+r.Intn(n-4096)), fmt.Sprintf("counts %d", hi-1),
		fmt.Sprintf("unlockrange 0 %s %d %d", md, lo, hi), "entries", "drain", "entries"}
	return corr.Case{Tag: "huge-list", Lines: lines}
}

// genStressStrings: the parallel run with many distinct STRING keys hashed at the same time (xxhash routing of strings)
func genStressStrings(r *rng.R, tier string) corr.Case {
	sh := shape{kind: r.Pick("tkg", "tkg", "klg"), hash: "str", prime: r.PickInt(73, 73, 3), N: 2, K: r.Range(16, 24)}
	for i := 0; i < sh.K; i++ {
		sh.shards = append(sh.shards, r.Intn(sh.prime))
	}
	it := 400
	if tier != "quick" {
		it = r.PickInt(1000, 3000)
	}
	return corr.Case{Tag: "parallel-stress-strings", Lines: []string{sh.init(), fmt.Sprintf("stress %d %d", r.PickInt(8, 12, 16), it), "entries"}}
}

// genOdd: key kinds outside remap's routable domain. Pointer keys: the pointee is modified while the key is locked (the key
// is the pointer); on group lockers remap refuses pointer and float keys before anything is locked (`unroutable`).
func genOdd(r *rng.R) corr.Case {
	kind := r.Pick("kl", "tkl", "klg", "tkg")
	hash := "ptr"
	if (kind == "klg" || kind == "tkg") && r.Bool() {
		hash = "flt"
	}
	sh := shape{kind: kind, hash: hash, prime: 1, N: 3, K: 3}
	if kind == "klg" || kind == "tkg" {
		sh.prime = r.PickInt(1, 2, 73)
	}
	for i := 0; i < sh.K; i++ {
		sh.shards = append(sh.shards, r.Intn(sh.prime))
	}
	lines := []string{sh.init(), "lock 0 0", "mutate 0", "lock 1 0", "rlock 2 1", "mutate 1", "lock 1 1", "lock 2 0", "unlock 0 0", "mutate 0", "drain", "entries"}
	if kind == "tkl" || kind == "tkg" {
		lines = append(lines[:len(lines)-2], "locks 0 0,1,2", "mutate 2", "lock 1 2", "drain", "entries")
	}
	return corr.Case{Tag: "odd-keys", Lines: lines}
}

// routeShape: sharded lockers whose routing must not depend on history: Bs keys owning their slice mixed with ints (bsx),
// ints with colliding xxhash digests (col), or ordinary int / string keys; shards stated = the pure routing function.
func routeShape(r *rng.R) shape {
	sh := shape{N: r.Range(3, 5), K: r.Range(3, 5)}
	switch r.Intn(4) {
	case 0:
		sh.kind, sh.hash, sh.prime = "klg", "bsx", r.PickInt(73, 73, 13, 3)
		for i := 0; i < sh.K; i++ {
			var v interface{} = 7000 + i
			if i%2 == 0 {
				v = newBsKey(i)
			}
			sh.shards = append(sh.shards, pureIndex(v, uint64(sh.prime), true))
		}
	case 1:
		sh.kind, sh.hash, sh.prime = r.Pick("klg", "tkg"), "col", 73
		for _, v := range colInts(sh.K) {
			sh.shards = append(sh.shards, pureIndex(v, 73, true))
		}
	default:
		sh.kind, sh.hash, sh.prime = r.Pick("klg", "tkg"), r.Pick("mod", "xh", "str"), r.PickInt(73, 73, 13, 7)
		for i := 0; i < sh.K; i++ {
			sh.shards = append(sh.shards, r.Intn(sh.prime))
		}
	}
	return sh
}

// genReroute: keys are held (writers and readers); the process creates other ReMaps / lockers with other shard counts and looks
// other keys up; the held keys must still be where they were: probes park, unlocks reach their entries, nothing is left.
func genReroute(r *rng.R) corr.Case {
	sh := routeShape(r)
	lines := []string{sh.init(), "lock 0 0", "rlock 1 1"}
	if sh.K > 3 {
		lines = append(lines, "rlock 1 3")
	}
	primes := []int{13, 7, 3, 2, 97, 73, 5, 1}
	for i := 0; i < r.Range(1, 3); i++ {
		lines = append(lines, fmt.Sprintf("remap %d", primes[r.Intn(len(primes))]))
		// look other keys up on the locker itself (lookup memos, pooled buffers)
		lines = append(lines, "rlock 2 2", "runlock 2 2")
		if r.Bool() {
			lines = append(lines, "rlock 2 1", "runlock 2 1")
		}
	}
	lines = append(lines, "counts 0", "lock 2 0", "lock "+strconv.Itoa(sh.N-1)+" 1", "unlock 0 0", "runlock 1 1", "entries", "drain", "entries")
	return corr.Case{Tag: "reroute", Lines: lines}
}

// genBurst: a single-shard locker holds 1024..1500 keys at once while a few ordinary keys are held by other threads
// (readers and a writer); the burst drains; the held keys must still exclude (probes park) and nothing may leak.
func genBurst(r *rng.R) corr.Case {
	sh := shape{kind: r.Pick("kl", "kl", "klg", "tkl", "tkg"), hash: r.Pick("mod", "str", "xh"), prime: 1, N: 6, K: 3, shards: []int{0, 0, 0}}
	lo := 48
	hi := lo + r.Range(1024, 1500)
	bw := map[bool]string{true: "w", false: "r"}[r.Chance(2, 3)]
	lines := []string{sh.init()}
	pre := []string{"rlock 1 0", "rlock 2 0", "lock 3 1", "rlock 1 2"}
	if r.Bool() { // holders arrive before or after the burst
		lines = append(lines, pre...)
		lines = append(lines, fmt.Sprintf("burst 0 %s %d %d", bw, lo, hi), "entries")
	} else {
		lines = append(lines, fmt.Sprintf("burst 0 %s %d %d", bw, lo, hi), "entries")
		lines = append(lines, pre...)
	}
	lines = append(lines, fmt.Sprintf("unburst 0 %s %d %d", bw, lo, hi), "entries", "counts 0", "counts 1",
		"lock 4 0", "rlock 5 1", "lock 0 2", "counts 0", "entries", "drain", "entries")
	return corr.Case{Tag: "burst", Lines: lines}
}

func genScriptShape(r *rng.R, sh shape, tag string, ordered bool, hot bool, n int) corr.Case {
	if hot {
		if k := r.Range(1, 2); k < sh.K {
			sh.K = k
		}
		sh.shards = sh.shards[:sh.K]
		sh.N = r.Range(3, 6)
	}
	multi := sh.kind == "tkl" || sh.kind == "tkg"
	s := newSim(sh.kind == "klg" || sh.kind == "tkg", sh.N, sh.shards)
	lines := []string{sh.init()}
	rank := func(k int) int { return sh.shards[k]*1000 + k }
	for i := 0; i < n; i++ {
		if (sh.kind == "klg" || sh.kind == "tkg") && r.Chance(1, 30) {
			lines = append(lines, fmt.Sprintf("remap %d", r.PickInt(1, 2, 3, 13, 73, 97)))
			continue
		}
		if r.Chance(1, 8) {
			if r.Bool() {
				lines = append(lines, "entries")
			} else {
				lines = append(lines, "counts "+strconv.Itoa(r.Intn(sh.K)))
			}
			continue
		}
		t := r.Intn(sh.N)
		for tries := 0; tries < 6 && s.th[t].parked; tries++ {
			t = r.Intn(sh.N)
		}
		th := s.th[t]
		if th.parked {
			if r.Chance(1, 3) {
				lines = append(lines, fmt.Sprintf("%s %d %d", r.Pick("lock", "rlock", "unlock"), t, r.Intn(sh.K))) // expected: busy
			}
			continue
		}
		var heldKeys []int
		for k := range th.held {
			heldKeys = append(heldKeys, k)
		}
		sort.Ints(heldKeys)
		release := len(heldKeys) > 0 && (r.Chance(1, 2) || len(heldKeys) == sh.K)
		if release {
			// release one key, or (multi) several keys of one mode
			k0 := heldKeys[r.Intn(len(heldKeys))]
			w := th.held[k0]
			if multi && r.Chance(1, 2) {
				var ks []int
				for _, k := range heldKeys {
					if th.held[k] == w && (k == k0 || r.Bool()) {
						ks = append(ks, k)
					}
				}
				if !ordered && r.Bool() {
					for a := len(ks) - 1; a > 0; a-- {
						b := r.Intn(a + 1)
						ks[a], ks[b] = ks[b], ks[a]
					}
				}
				lines = append(lines, fmt.Sprintf("%s %d %s", map[bool]string{true: "unlocks", false: "runlocks"}[w], t, keyList(ks)))
				for _, k := range s.order(ks) {
					s.unlock(t, k)
				}
			} else {
				lines = append(lines, fmt.Sprintf("%s %d %d", map[bool]string{true: "unlock", false: "runlock"}[w], t, k0))
				s.unlock(t, k0)
			}
			continue
		}
		// acquire
		var cand []int
		maxHeld := -1
		for _, k := range heldKeys {
			if rank(k) > maxHeld {
				maxHeld = rank(k)
			}
		}
		for k := 0; k < sh.K; k++ {
			if _, ok := th.held[k]; ok {
				continue
			}
			if ordered && rank(k) <= maxHeld {
				continue
			}
			cand = append(cand, k)
		}
		if len(cand) == 0 {
			if r.Chance(1, 4) && len(heldKeys) > 0 {
				lines = append(lines, fmt.Sprintf("lock %d %d", t, heldKeys[0])) // expected: misuse
			}
			continue
		}
		write := r.Chance(1, 2)
		if multi && r.Chance(1, 2) {
			var ks []int
			for _, k := range cand {
				if r.Chance(2, 3) {
					ks = append(ks, k)
				}
			}
			if !ordered {
				for a := len(ks) - 1; a > 0; a-- {
					b := r.Intn(a + 1)
					ks[a], ks[b] = ks[b], ks[a]
				}
				if len(ks) > 0 && r.Chance(1, 12) {
					ks = append(ks, ks[0]) // duplicate: misuse
					lines = append(lines, fmt.Sprintf("%s %d %s", map[bool]string{true: "locks", false: "rlocks"}[write], t, keyList(ks)))
					continue
				}
			}
			lines = append(lines, fmt.Sprintf("%s %d %s", map[bool]string{true: "locks", false: "rlocks"}[write], t, keyList(ks)))
			s.call(t, write, ks)
		} else {
			k := cand[r.Intn(len(cand))]
			lines = append(lines, fmt.Sprintf("%s %d %d", map[bool]string{true: "lock", false: "rlock"}[write], t, k))
			s.call(t, write, []int{k})
		}
	}
	lines = append(lines, "drain", "entries")
	return corr.Case{Tag: tag, Lines: lines}
}

// genLongList: a multi-key call with 13..24 keys (ascending ids, duplicate free) on a sharded generic locker with 2..3
// shards, so that many keys share a shard, against contenders for two same-shard keys of that list.
//   variant 0/1 (order probe): a contender holds a same-shard key b; the long call parks on it; every same-shard key that
//     precedes b in the list must then be held by the long call (probes park), keys of later shards must be free.
//   variant 2 (deadlock): a short RLocks [a,b] and the long Locks meet on a and b while a reader and a writer hand a over.
func genLongList(r *rng.R, variant int) corr.Case {
	sh := shape{kind: "tkg", hash: r.Pick("mod", "xh", "str"), prime: r.PickInt(2, 2, 3), N: 0, K: r.PickInt(r.Range(13, 24), r.Range(13, 24), r.Range(25, 40))}
	if variant == 3 {
		sh.K = r.Range(30, 40)
		sh.kind = r.Pick("tkg", "tkl")
		if sh.kind == "tkl" {
			sh.prime = 1
		}
	}
	for i := 0; i < sh.K; i++ {
		sh.shards = append(sh.shards, r.Intn(sh.prime))
	}
	// the list: all keys, or all but a few
	var list []int
	for k := 0; k < sh.K; k++ {
		if sh.K-len(list) <= 13-len(list) || !r.Chance(1, 8) {
			list = append(list, k)
		}
	}
	for len(list) < 13 {
		list = nil
		for k := 0; k < sh.K; k++ {
			list = append(list, k)
		}
	}
	// a shard with at least two keys of the list
	byShard := map[int][]int{}
	for _, k := range list {
		byShard[sh.shards[k]] = append(byShard[sh.shards[k]], k)
	}
	var cands []int
	for s := 0; s < sh.prime; s++ {
		if len(byShard[s]) >= 2 {
			cands = append(cands, s)
		}
	}
	if len(cands) == 0 { // cannot happen with >= 13 keys over <= 3 shards
		return genScript(r, "ordered-multi", true, true, false, 10)
	}
	s0 := cands[r.Intn(len(cands))]
	same := byShard[s0]
	lw := map[bool]string{true: "locks", false: "rlocks"}
	sw := map[bool]string{true: "lock", false: "rlock"}
	uw := map[bool]string{true: "unlock", false: "runlock"}
	if variant == 3 {
		// all held: a long Locks/RLocks returns; every listed key — also beyond any internal limit — must then be held
		mWrite := r.Chance(2, 3)
		var probes []int
		probes = append(probes, list[len(list)-1], list[len(list)-2], list[0])
		for len(probes) < 8 {
			probes = append(probes, list[r.Intn(len(list))])
		}
		sh.N = 1 + len(probes)
		lines := []string{sh.init(), fmt.Sprintf("%s 0 %s", lw[mWrite], keyList(list))}
		seenP := map[int]bool{}
		for i, a := range probes {
			if seenP[a] {
				continue
			}
			seenP[a] = true
			lines = append(lines, fmt.Sprintf("lock %d %d", 1+i, a))
		}
		lines = append(lines, "counts "+strconv.Itoa(list[len(list)-1]), fmt.Sprintf("%s 0 %s", map[bool]string{true: "unlocks", false: "runlocks"}[mWrite], keyList(list)), "drain", "entries")
		return corr.Case{Tag: "long-list-all-held", Lines: lines}
	}
	if variant < 2 {
		bi := len(same) - 1
		if variant == 1 {
			bi = r.Range(1, len(same)-1)
		}
		b := same[bi]
		mWrite := r.Chance(2, 3)
		xWrite := !mWrite || r.Bool()
		var probes []int
		for _, a := range same[:bi] {
			probes = append(probes, a)
		}
		for len(probes) > 12 {
			i := r.Intn(len(probes))
			probes = append(probes[:i], probes[i+1:]...)
		}
		var later []int
		for _, k := range list {
			if sh.shards[k] > s0 {
				later = append(later, k)
			}
		}
		sh.N = 2 + len(probes) + 1
		lines := []string{sh.init(), fmt.Sprintf("%s 0 %d", sw[xWrite], b), fmt.Sprintf("%s 1 %s", lw[mWrite], keyList(list))}
		for i, a := range probes {
			lines = append(lines, fmt.Sprintf("%s %d %d", sw[!mWrite || r.Bool()], 2+i, a))
		}
		if len(later) > 0 {
			c := later[r.Intn(len(later))]
			t := sh.N - 1
			lines = append(lines, fmt.Sprintf("lock %d %d", t, c), "counts "+strconv.Itoa(c), fmt.Sprintf("unlock %d %d", t, c))
		}
		lines = append(lines, fmt.Sprintf("%s 0 %d", uw[xWrite], b), "entries", "drain", "entries")
		return corr.Case{Tag: "long-list-order", Lines: lines}
	}
	ai := r.Intn(len(same) - 1)
	a, b := same[ai], same[r.Range(ai+1, len(same)-1)]
	sh.N = 4
	lines := []string{sh.init(), fmt.Sprintf("rlock 0 %d", a), fmt.Sprintf("lock 1 %d", a), fmt.Sprintf("locks 2 %s", keyList(list)),
		fmt.Sprintf("rlocks 3 %d,%d", a, b), fmt.Sprintf("runlock 0 %d", a), fmt.Sprintf("unlock 1 %d", a), "drain", "entries"}
	return corr.Case{Tag: "long-list-deadlock", Lines: lines}
}

// genStress: a genuinely parallel run (no scheduler) on a fresh locker of the given shape; monitors only.
func genStress(r *rng.R, tier string) corr.Case {
	sh := genShape(r, r.Bool())
	sh.K = r.Range(1, 4)
	sh.shards = sh.shards[:0]
	for i := 0; i < sh.K; i++ {
		sh.shards = append(sh.shards, r.Intn(sh.prime))
	}
	it := 150
	if tier != "quick" {
		it = r.PickInt(300, 1000, 3000)
	}
	return corr.Case{Tag: "parallel-stress", Lines: []string{sh.init(), fmt.Sprintf("stress %d %d", r.PickInt(4, 8, 12), it), "entries"}}
}

func genMalformed(r *rng.R) corr.Case {
	sh := genShape(r, false)
	lines := []string{sh.init()}
	bad := []string{"lock", "lock 0", "lock 0 0 0", "lock x 0", "lock 0 x", "lock 99 0", "lock 0 99", "lock -1 0", "lock 00 0", "locks 0 0,,1",
		"locks 0 ,", "locks 0 0,99", "unlocks 0", "Lock 0 0", "counts", "counts 99", "counts x", "entries 1", "drain 0", "", "  ", "rlock 0 0 extra",
		"runlock 0 +0", "locks 0 0;1", "burst 0 w 48", "lockrange 0 w 48", "lockrange 0 w 48 9000", "mutate", "mutate 99", "remap", "remap 0", "remap 101", "remap x", "burst 0 x 48 60", "burst 0 w 60 48", "burst 0 w 48 4000", "unburst 9 w 48 60", "stress", "stress 0 10", "stress 4", "stress 17 10", "stress 4 5001", "stress x 1", "init", "init kl mod 1", "init zz mod 1 2 1 0", "init kl mod 2 2 1 0", "init tkg mod 2 2 2 0 2", "init tkg mod 2 2 2 0",
		"init tkg md5 2 2 2 0 1", "init tkg mod 0 2 1 0", "init tkg mod 2 0 1 0", "init tkg mod 2 17 1 0", "init tkg mod 101 2 1 0"}
	for i := 0; i < 8; i++ {
		switch r.Intn(3) {
		case 0:
			lines = append(lines, bad[r.Intn(len(bad))])
		case 1:
			lines = append(lines, fmt.Sprintf("%s %d %d", r.Pick("lock", "rlock", "unlock", "runlock"), r.Intn(sh.N), r.Intn(sh.K)))
		default:
			lines = append(lines, r.Pick("entries", "counts 0", "drain"))
		}
	}
	lines = append(lines, "drain", "entries")
	return corr.Case{Tag: "malformed", Lines: lines}
}

func (s *sim) clone() *sim {
	c := &sim{group: s.group, shards: s.shards}
	for _, k := range s.keys {
		nk := &simKey{writer: k.writer, readers: map[int]bool{}, pend: append([]int{}, k.pend...)}
		for r := range k.readers {
			nk.readers[r] = true
		}
		c.keys = append(c.keys, nk)
	}
	for _, t := range s.th {
		nt := &simThread{todo: append([]int{}, t.todo...), write: t.write, parked: t.parked, held: map[int]bool{}}
		for k, w := range t.held {
			nt.held[k] = w
		}
		c.th = append(c.th, nt)
	}
	return c
}

// enumScripts: every script of at most `depth` valid single-key calls by 3 threads over 2 keys (first call by thread 0
// on key 0, by symmetry); used by the thorough tier on all four locker types.
func enumScripts(depth int) [][]string {
	var out [][]string
	var rec func(s *sim, ops []string)
	rec = func(s *sim, ops []string) {
		if len(ops) > 0 {
			out = append(out, append([]string{}, ops...))
		}
		if len(ops) == depth {
			return
		}
		for t := 0; t < 3; t++ {
			if s.th[t].parked || (len(ops) == 0 && t != 0) {
				continue
			}
			for k := 0; k < 2; k++ {
				if len(ops) == 0 && k != 0 {
					continue
				}
				if w, ok := s.th[t].held[k]; ok {
					c := s.clone()
					c.unlock(t, k)
					rec(c, append(ops, fmt.Sprintf("%s %d %d", map[bool]string{true: "unlock", false: "runlock"}[w], t, k)))
					continue
				}
				for _, w := range []bool{true, false} {
					c := s.clone()
					c.call(t, w, []int{k})
					rec(c, append(ops, fmt.Sprintf("%s %d %d", map[bool]string{true: "lock", false: "rlock"}[w], t, k)))
				}
			}
		}
	}
	rec(newSim(false, 3, []int{0, 0}), nil)
	return out
}

var enumCache [][]string

func enumCase(i int) corr.Case {
	inits := []string{"init kl mod 1 3 2 0 0", "init tkl str 1 3 2 0 0", "init klg mod 2 3 2 0 1", "init tkg xh 2 3 2 1 0"}
	ops := enumCache[i/len(inits)]
	lines := append([]string{inits[i%len(inits)]}, ops...)
	lines = append(lines, "counts 0", "drain", "entries")
	return corr.Case{Tag: "exhaustive-small", Lines: lines}
}

const enumDepth = 5

func fixedCases() []corr.Case {
	mk := func(tag string, ls ...string) corr.Case { return corr.Case{Tag: tag, Lines: ls} }
	var out []corr.Case
	for _, init := range []string{"init kl mod 1 4 2 0 0", "init klg mod 2 4 2 0 1", "init klg xh 73 4 2 5 5", "init tkl str 1 4 2 0 0", "init tkg mod 3 4 2 2 0", "init tkg str 2 4 2 1 1", "init kl str 1 4 2 0 0"} {
		out = append(out,
			// writer excludes everybody; released writer admits blocked readers first, then the pending writer
			mk("fixed-writer-preference", init, "rlock 0 0", "lock 1 0", "rlock 2 0", "counts 0", "runlock 0 0", "lock 3 0", "unlock 1 0", "runlock 2 0", "counts 0", "unlock 3 0", "entries", "drain", "entries"),
			// the entry survives while somebody waits on it (count raised before blocking)
			mk("fixed-waiter-keeps-entry", init, "lock 0 0", "lock 1 0", "counts 0", "unlock 0 0", "counts 0", "lock 2 0", "unlock 1 0", "unlock 2 0", "entries", "drain", "entries"),
			// holding one key never blocks another key
			mk("fixed-independent", init, "lock 0 0", "lock 1 1", "rlock 2 1", "unlock 1 1", "rlock 3 1", "entries", "drain", "entries"),
			// misuse is refused by both sides and changes nothing
			mk("fixed-misuse", init, "unlock 0 0", "lock 0 0", "lock 0 0", "runlock 0 0", "unlock 1 0", "lock 1 0", "lock 1 1", "unlock 0 0", "drain", "entries"),
		)
	}
	for _, init := range []string{"init tkl mod 1 4 3 0 0 0", "init tkg mod 2 4 3 1 0 1", "init tkg xh 3 4 3 2 1 0", "init tkg str 73 4 3 7 7 3", "init tkg mod 1 4 3 0 0 0"} {
		out = append(out,
			mk("fixed-multi-all-held", init, "locks 0 0,1,2", "rlock 1 0", "rlock 2 2", "lock 3 1", "counts 1", "unlocks 0 0,2", "counts 0", "unlocks 0 1", "drain", "entries"),
			// Locks against RLocks over the same keys while a third caller holds the last one (deadlock if the two sort differently)
			mk("fixed-locks-vs-rlocks", init, "lock 2 1", "locks 0 0,1", "rlocks 1 0,1", "unlock 2 1", "lock 2 2", "locks 3 0,1,2", "drain", "entries"),
			mk("fixed-locks-vs-rlocks-2", init, "lock 2 0", "lock 3 1", "locks 0 0,1", "rlocks 1 0,1", "unlock 2 0", "unlock 3 1", "drain", "entries"),
			mk("fixed-empty-list", init, "locks 0 -", "rlocks 1 -", "unlocks 0 -", "entries", "locks 0 1,1", "drain", "entries"),
			// opposite list orders: the group locker sorts by shard, the single locker takes list order (nested singles can deadlock)
			mk("fixed-opposite-orders", init, "lock 2 0", "locks 0 0,1", "locks 1 1,0", "unlock 2 0", "drain", "entries"),
		)
	}
	// long multi-key lists on sharded lockers (same-shard keys must keep the caller's order, whatever the list length)
	lr := rng.New(20260930)
	for i := 0; i < 32; i++ {
		out = append(out, genLongList(lr.Fork(uint64(i)), i%4))
	}
	// nested single-key locking across shards (key 0 -> shard 1, key 1 -> shard 0): A: Lock(0); B: Locks([0,1]); A: Lock(1) — a real
	// deadlock of the unchanged code, outside the clause (a caller that holds a lock while acquiring another one must follow
	// the locker's (shard, key) rank); both sides must report the same stuck threads, no deadlock verdict
	out = append(out, mk("fixed-nested-cross-shard", "init tkg mod 2 2 2 1 0", "lock 0 0", "locks 1 0,1", "lock 0 1", "drain", "entries"))
	for _, init := range []string{"init kl mod 1 2 3 0 0 0", "init klg xh 3 2 3 0 1 2", "init tkl str 1 2 3 0 0 0", "init tkg mod 2 2 4 0 1 0 1", "init tkg xh 73 2 3 5 5 9"} {
		out = append(out, mk("fixed-parallel-stress", init, "stress 8 200", "entries"))
	}
	// a table that has held > 1024 keys drains while two readers and a writer keep ordinary keys: they must still exclude
	out = append(out, mk("fixed-burst", "init kl mod 1 6 3 0 0 0", "rlock 1 0", "rlock 2 0", "lock 3 1", "burst 0 w 48 1248", "entries",
		"unburst 0 w 48 1248", "entries", "counts 0", "lock 4 0", "rlock 5 1", "counts 0", "drain", "entries"))
	out = append(out, mk("fixed-burst", "init klg str 1 6 3 0 0 0", "burst 0 r 48 1100", "rlock 1 0", "lock 3 1", "unburst 0 r 48 1100", "entries",
		"lock 4 0", "rlock 5 1", "drain", "entries"))
	// negative / extreme int keys: single-key and multi-key calls must route a key to the same shard (73 shards: -5 -> 70)
	for _, hk := range []string{"neg", "n64"} {
		rm := remap.NewReMap(remap.WithPrime(73))
		var shs []string
		for i := 0; i < 4; i++ {
			shs = append(shs, strconv.Itoa(rm.SimpleIndex(int(negInts[i]))))
		}
		init := "init tkg " + hk + " 73 4 4 " + strings.Join(shs, " ")
		out = append(out,
			mk("fixed-neg-keys", init, "lock 0 1", "locks 1 0,1", "rlock 2 1", "unlock 0 1", "rlocks 3 1,2,3", "lock 0 2", "lock 2 3", "drain", "entries"),
			mk("fixed-neg-keys", init, "locks 0 0,1,2,3", "lock 1 0", "lock 2 2", "rlock 3 3", "unlocks 0 0,1,2,3", "drain", "entries"))
	}
	// HitGroup keys with equal Hit(): different keys, one shard — holding one must not block the other
	out = append(out, mk("fixed-hit-keys", "init klg hit 2 4 3 1 1 0", "lock 0 0", "lock 1 1", "rlock 2 2", "lock 3 0", "unlock 0 0", "drain", "entries"),
		mk("fixed-hit-keys", "init kl hit 1 4 3 0 0 0", "lock 0 0", "lock 1 1", "rlock 2 2", "rlock 3 2", "drain", "entries"))
	// one call spanning many shards; one call over > 4096 keys; many string keys hashed in parallel; unroutable key kinds
	wr := rng.New(20261001)
	for i := 0; i < 12; i++ {
		out = append(out, genWide(wr.Fork(uint64(i)), i%3))
	}
	out = append(out, mk("fixed-huge-list", "init tkg mod 1 5 2 0 0", "lockrange 0 w 48 4248", "entries", "lock 1 4247", "lock 2 48", "lock 3 4200", "counts 4247",
		"unlockrange 0 w 48 4248", "entries", "drain", "entries"))
	out = append(out, genStressStrings(wr.Fork(100), "quick"), genStressStrings(wr.Fork(101), "quick"))
	for i := 0; i < 6; i++ {
		out = append(out, genOdd(wr.Fork(uint64(200+i))))
	}
	out = append(out, mk("fixed-odd-keys", "init klg ptr 2 3 2 0 1", "lock 0 0", "mutate 0", "lock 1 0", "unlock 0 0", "drain", "entries"),
		mk("fixed-odd-keys", "init tkg flt 73 3 3 1 2 3", "lock 0 0", "lock 1 1", "rlocks 2 0,1,2", "drain", "entries"),
		mk("fixed-odd-keys", "init kl ptr 1 3 2 0 0", "lock 0 0", "mutate 0", "lock 1 0", "unlock 0 0", "mutate 0", "unlock 1 0", "entries"))
	// routing must not depend on history or on other containers
	rr := rng.New(20261002)
	for i := 0; i < 10; i++ {
		out = append(out, genReroute(rr.Fork(uint64(i))))
	}
	{
		ci := colInts(4)
		var shs []string
		for _, v := range ci {
			shs = append(shs, strconv.Itoa(pureIndex(v, 73, true)))
		}
		// a held; c evicts the memo slot; b (same low 32 bits as a) is looked up; a must still be where it was
		out = append(out, mk("fixed-colliding-keys", "init tkg col 73 4 4 "+strings.Join(shs, " "), "lock 0 0", "rlock 1 2", "runlock 1 2", "rlock 1 1", "runlock 1 1",
			"counts 0", "lock 2 0", "unlock 0 0", "drain", "entries"))
		var bs []string
		for i := 0; i < 4; i++ {
			var v interface{} = 7000 + i
			if i%2 == 0 {
				v = newBsKey(i)
			}
			bs = append(bs, strconv.Itoa(pureIndex(v, 73, true)))
		}
		// a Bs key owning its slice is held; integer keys are looked up (here and on another locker); the Bs key must not move
		out = append(out, mk("fixed-bs-keys", "init klg bsx 73 4 4 "+strings.Join(bs, " "), "lock 0 0", "rlock 1 1", "runlock 1 1", "remap 73", "rlock 1 3", "runlock 1 3",
			"counts 0", "lock 2 0", "unlock 0 0", "drain", "entries"))
	}
	// an unordered nest of single locks: a real deadlock, expected (no order discipline) — both sides must report the same stuck threads
	out = append(out, mk("fixed-unordered-deadlock", "init kl mod 1 2 2 0 0", "lock 0 0", "lock 1 1", "lock 0 1", "lock 1 0", "drain", "entries"))
	return out
}

func spec() corr.Spec {
	return corr.Spec{
		Property: "C02",
		Fixed:    fixedCases,
		Count: func(tier string) int {
			switch tier {
			case "quick":
				return 1500
			case "thorough":
				if enumCache == nil {
					enumCache = enumScripts(enumDepth)
				}
				return 4*len(enumCache) + 16000
			}
			return 3000
		},
		Shards: func(tier string) int {
			if tier == "quick" {
				return 8
			}
			return 14
		},
		Gen: func(r *rng.R, tier string, i int) corr.Case {
			if i%400 == 7 { // the burst class is heavy (a thousand calls per line): a few per run
				return genBurst(r)
			}
			if i%800 == 11 { // one call over > 4096 keys: very few per run
				return genHuge(r, tier)
			}
			if tier == "thorough" {
				if enumCache == nil {
					enumCache = enumScripts(enumDepth)
				}
				if i < 4*len(enumCache) {
					return enumCase(i)
				}
			}
			n := r.Range(6, 22)
			if tier != "quick" && r.Chance(1, 5) {
				n = r.Range(20, 40)
			}
			switch x := r.Intn(100); {
			case x < 8:
				return genLongList(r, r.Intn(4))
			case x < 11:
				return genStress(r, tier)
			case x < 16:
				return genScriptShape(r, negShape(r), "neg-keys", true, r.Bool(), n)
			case x < 17:
				return genOdd(r)
			case x < 20:
				return genScriptShape(r, hitShape(r), "hit-keys", true, false, n)
			case x < 26:
				return genWide(r, r.Intn(3))
			case x < 32:
				return genReroute(r)
			case x < 35:
				return genScriptShape(r, routeShape(r), "route-keys", true, r.Bool(), n)
			case x < 28:
				return genStressStrings(r, tier)
			case x < 30:
				return genScript(r, "ordered-multi", true, true, false, n)
			case x < 50:
				return genScript(r, "ordered-any", true, false, false, n)
			case x < 72:
				return genScript(r, "hot-key", true, false, true, n)
			case x < 86:
				return genScript(r, "hot-multi", true, true, true, n)
			case x < 95:
				return genScript(r, "unordered", false, r.Bool(), false, n)
			default:
				return genMalformed(r)
			}
		},
		Run: runIsolated,
		TOnly: func(line string) bool {
			return strings.HasPrefix(line, "counts") || strings.HasPrefix(line, "entries")
		},
		NonTrivial: func(c corr.Case, res corr.Result) bool {
			// some call parked at some point and at least 4 calls were executed
			parked, calls := false, 0
			for _, o := range res.Outs {
				if strings.Contains(o, "P") && !strings.ContainsAny(o, "=abcdefghijklmnopqrstuvwxyz") {
					parked = true
				}
				if strings.Trim(o, "-P") == "" && o != "" {
					calls++
				}
			}
			return parked && calls >= 4
		},
		Rule: "scripts of lock/rlock/unlock/runlock/locks/rlocks/unlocks/runlocks by 2..6 threads over 1..4 keys (long-list classes: 13..24 keys on 2..3 shards, up to 15 threads) on KeyLocker, KeyLockerGrp, TKeyLocker[int|string], TKeyLockerGrp[int|string] (modulo / xxhash routing, 1,2,3,73 shards; shard patterns: one shard, opposite to key order, random); each call runs in its own goroutine until it returns or parks (quiescence from goroutine states); thorough adds every script of <= 5 valid single-key calls by 3 threads over 2 keys on all four lockers; classes: order-respecting multi-key, single-key, hot key (1..2 keys, up to 6 threads), unordered (deadlocks allowed), malformed lines, parallel-stress (G goroutines on a fresh locker, occupancy counters per key), burst (a 1-shard locker holds 1024..1500 keys at once, then drains, beside held ordinary keys), neg-keys (negative/extreme int and int64 keys, single- and multi-key calls mixed), hit-keys (remap.HitGroup keys with equal Hit()), wide-list (one call over 13..40 different shards of 73), huge-list (one call over > 4096 keys), parallel-stress-strings (16..24 string keys), reroute / route-keys (`remap p` creates other ReMaps and lockers mid-script while keys are held; Bs keys owning their slice mixed with ints; ints with colliding xxhash digests), odd-keys (pointer keys mutated while locked; pointer/float keys are unroutable on group lockers); every script ends with drain + entries; non-trivial = some call parked and >= 4 calls ran; distinct = distinct script text",
		Assumptions: []string{
			"sync.RWMutex / sync.Mutex behave as documented (writer preference; a blocked writer excludes later readers); pending writers are admitted in arrival order when nothing else runs (observed, not relied upon by the theorems: the model admits any pending writer)",
			"a runnable goroutine eventually runs; a holder eventually unlocks (premise of the deadlock clause)",
			"keys are valid Go map keys with reflexive equality and, for the group lockers, of a type remap can route (a NaN key can never be unlocked, an unhashable dynamic type or an unroutable type panics inside the table-mutex section and wedges the locker: Go map / remap semantics, outside the property)",
			"deadlock clause: every call uses an ascending duplicate-free list; a caller that already holds locks while acquiring more follows the locker's own (shard, key) rank (the runner judges only same-shard nesting, which is safe for any comparator direction); nested locking across shards in key order alone can deadlock (fixed-nested-cross-shard) and is outside the clause",
			"the oracle mirrors the wake-up behaviour of sync.RWMutex/sync.Mutex of Go 1.23 (reader tokens, FIFO among sleeping writers); another correct RW lock or a Go release with different wake-ups shows as P/T disagreements on the unchanged tree — a harness issue to fix in the model, not a finding (writer preference is not part of the property)",
			"routing is a pure function of (key bytes, shard count) — the model's `sh` parameter; the runner recomputes it independently of package remap (route.go) and checks the public remap API and the reachability of every held key's entry after every line",
			"callers unlock only what they hold, in the mode they hold it (anything else crashes the Go runtime; such ops are refused as `misuse` by runner and oracle alike)",
			"the shard index of a key is taken from the public remap API (routing itself is property C17)",
		},
		Trusted: []string{"modelled, not verified: sync.RWMutex, sync.Mutex, Go map, golang.org/x/exp/slices.SortFunc, remap routing (C17)",
			"go/lib/sched quiescence detection (goroutine states of go1.23.5)"},
	}
}
