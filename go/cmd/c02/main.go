// Command c02: extractor and correspondence runner for property C02 (syncx/keylock).
package main

import (
	"fmt"
	"os"
	"path/filepath"
	"strings"

	"nvharness/lib/corr"
	"nvharness/lib/gofacts"
	_ "nvharness/lib/quiet"
	"nvharness/lib/rng"
)

func main() {
	if len(os.Args) < 2 {
		fmt.Fprintln(os.Stderr, "usage: c02 extract <repo> <leanDir> | corr …")
		os.Exit(2)
	}
	switch os.Args[1] {
	case "extract":
		extract(os.Args[2], os.Args[3])
	case "corr":
		corr.Main(spec(), os.Args[2:])
	case "runone":
		runOne()
	case "gen": // c02 gen <seed> <tier> <from> <to>: print generated cases (diagnostics)
		dumpCases(os.Args[2:])
	default:
		os.Exit(2)
	}
}

func dumpCases(a []string) {
	var seed uint64
	var from, to int
	fmt.Sscan(a[0], &seed)
	fmt.Sscan(a[2], &from)
	fmt.Sscan(a[3], &to)
	sp := spec()
	root := rng.New(seed)
	for i := from; i < to; i++ {
		c := sp.Gen(root.Fork(uint64(i)), a[1], i)
		fmt.Printf("# case %d %s\n%s\n", i, c.Tag, strings.Join(c.Lines, "\n"))
	}
}

// ---------------------------------------------------------------- extract

// Every fact compares the WHOLE normalised body of a method with the text the model was written against (31 methods
// and helpers); signatures, receivers, types, constructors and the file set are compared by bin/check S2b.

const (
	declLock   = "var ( wrLocker *wrapLocker ok bool ) "
	lookupOrMk = "d.locker.Lock() wrLocker, ok = d.lockMap[key] if !ok { wrLocker = &wrapLocker{} d.lockMap[key] = wrLocker } "
)

// lockBody: Lock/RLock with the count raised before blocking (today) or after the blocking call.
func lockBody(cnt, blk string, after bool) string {
	if after {
		return "{ " + declLock + lookupOrMk + "d.locker.Unlock() wrLocker.rwLocker." + blk + "() wrLocker." + cnt + "++ }"
	}
	return "{ " + declLock + lookupOrMk + "wrLocker." + cnt + "++ d.locker.Unlock() wrLocker.rwLocker." + blk + "() }"
}

func unlockBody(decl, cnt, blk string) string {
	return "{ " + decl + " d.locker.Lock() wrLocker = d.lockMap[key] wrLocker.rwLocker." + blk + "() wrLocker." + cnt + "-- d.tryFree(key, wrLocker) d.locker.Unlock() }"
}

func getBody(cnt string) string {
	return "{ var ( wrLocker *wrapLocker ok bool ws []*wrapLocker ) ws = make([]*wrapLocker, len(keys)) d.locker.Lock() for i, key := range keys { wrLocker, ok = d.lockMap[key] if !ok { wrLocker = &wrapLocker{} d.lockMap[key] = wrLocker } wrLocker." + cnt + "++ ws[i] = wrLocker } d.locker.Unlock() return ws }"
}

func multiUnlockBody(cnt, blk string) string {
	return "{ var wrLocker *wrapLocker d.locker.Lock() for _, key := range keys { wrLocker = d.lockMap[key] wrLocker.rwLocker." + blk + "() wrLocker." + cnt + "-- d.tryFree(key, wrLocker) } d.locker.Unlock() }"
}

func guardOf(body string) string {
	switch body {
	case "{ if wrLocker.readCount == 0 && wrLocker.writeCount == 0 { delete(d.lockMap, key) } }",
		"{ if wrLocker.writeCount == 0 && wrLocker.readCount == 0 { delete(d.lockMap, key) } }":
		return "bothZero"
	case "{ if wrLocker.readCount == 0 { delete(d.lockMap, key) } }":
		return "readZero"
	case "{ if wrLocker.writeCount == 0 { delete(d.lockMap, key) } }":
		return "writeZero"
	case "{ }":
		return "never"
	}
	return "unknown"
}

const (
	expMultiLock  = "{ var ws = d.%s(keys) for _, wrLocker := range ws { wrLocker.rwLocker.%s() } }"
	expGrpLocks   = "{ var ms = w.calculateSortedMultiKeys(keys) var ws = make([]*wrapLocker, 0, len(keys)) for _, ks := range ms { ws = append(ws, w.ls[ks.index].%s(ks.ks)...) } for _, wr := range ws { wr.rwLocker.%s() } }"
	expGrpUnlocks = "{ var m = w.calculateSortedMultiKeys(keys) for _, ks := range m { w.ls[ks.index].%s(ks.ks) } }"
	expGrpBuild   = "{ var m = make(map[int][]T) for _, key := range keys { var i = w.calKeyFn(key) m[i] = append(m[i], key) } var ms = make([]multiKeyT[T], 0, len(m)) for i, ks := range m { ms = append(ms, multiKeyT[T]{index: i, ks: ks}) } slices.SortFunc[multiKeyT[T]](ms, func(a, b multiKeyT[T]) bool { return CMP }) return ms }"
	expCalcKey    = "{ var i = w.calKeyFn(key) return w.ls[i] }"
)

func extract(repo, leanDir string) {
	kf := gofacts.MustLoad(repo, "syncx/keylock/keylocker.go")
	tf := gofacts.MustLoad(repo, "syncx/keylock/tlocker.go")
	gf := gofacts.MustLoad(repo, "syncx/keylock/group.go")
	tgf := gofacts.MustLoad(repo, "syncx/keylock/tgroup.go")

	type site struct {
		f    *gofacts.File
		recv string
		decl string // declaration form used by the unlock paths of that file
	}
	sites := []site{{kf, "KeyLocker", "var ( wrLocker *wrapLocker )"}, {tf, "TKeyLocker", "var wrLocker *wrapLocker"}}
	lockShape, unlockShape := true, true
	var places []string
	for _, s := range sites {
		for _, x := range []struct{ name, cnt, blk string }{{"Lock", "writeCount", "Lock"}, {"RLock", "readCount", "RLock"}} {
			switch b := s.f.Body(s.recv, x.name); b {
			case lockBody(x.cnt, x.blk, false):
				places = append(places, "beforeBlock")
			case lockBody(x.cnt, x.blk, true):
				places = append(places, "afterBlock")
			default:
				places = append(places, "unknown")
				lockShape = false
			}
		}
		for _, x := range []struct{ name, cnt, blk string }{{"Unlock", "writeCount", "Unlock"}, {"RUnlock", "readCount", "RUnlock"}} {
			if s.f.Body(s.recv, x.name) != unlockBody(s.decl, x.cnt, x.blk) {
				unlockShape = false
			}
		}
	}
	multiGet, multiLock, multiUn := true, true, true
	for _, x := range []struct{ get, cnt, lock, blk, un, unblk string }{
		{"getWriteLocks", "writeCount", "Locks", "Lock", "Unlocks", "Unlock"},
		{"getReadLocks", "readCount", "RLocks", "RLock", "RUnlocks", "RUnlock"}} {
		if tf.Body("TKeyLocker", x.get) == getBody(x.cnt) {
			places = append(places, "beforeBlock")
		} else {
			places = append(places, "unknown")
			multiGet = false
		}
		if tf.Body("TKeyLocker", x.lock) != fmt.Sprintf(expMultiLock, x.get, x.blk) {
			multiLock = false
		}
		if tf.Body("TKeyLocker", x.un) != multiUnlockBody(x.cnt, x.unblk) {
			multiUn = false
		}
	}
	countAt := places[0]
	for _, p := range places {
		if p != countAt {
			countAt = "unknown"
		}
	}

	g1, g2 := guardOf(kf.Body("KeyLocker", "tryFree")), guardOf(tf.Body("TKeyLocker", "tryFree"))
	sameTryFree := g1 == g2
	guard := g1
	if !sameTryFree {
		guard = "unknown"
	}

	grpSingle := gf.Body("KeyLockerGrp", "calculateKey") == expCalcKey && tgf.Body("TKeyLockerGrp", "calculateKey") == expCalcKey
	for _, s := range []struct {
		f    *gofacts.File
		recv string
	}{{gf, "KeyLockerGrp"}, {tgf, "TKeyLockerGrp"}} {
		for _, n := range []string{"Lock", "Unlock", "RLock", "RUnlock"} {
			if s.f.Body(s.recv, n) != "{ w.calculateKey(key)."+n+"(key) }" {
				grpSingle = false
			}
		}
	}
	grpMulti := tgf.Body("TKeyLockerGrp", "Locks") == fmt.Sprintf(expGrpLocks, "getWriteLocks", "Lock") &&
		tgf.Body("TKeyLockerGrp", "RLocks") == fmt.Sprintf(expGrpLocks, "getReadLocks", "RLock") &&
		tgf.Body("TKeyLockerGrp", "Unlocks") == fmt.Sprintf(expGrpUnlocks, "Unlocks") &&
		tgf.Body("TKeyLockerGrp", "RUnlocks") == fmt.Sprintf(expGrpUnlocks, "RUnlocks")
	build := tgf.Body("TKeyLockerGrp", "calculateSortedMultiKeys")
	grpSort := "unknown"
	grpBuild := false
	for _, c := range []struct{ cmp, kind string }{{"a.index < b.index", "asc"}, {"b.index > a.index", "asc"}, {"a.index > b.index", "desc"}, {"b.index < a.index", "desc"}} {
		if build == strings.Replace(expGrpBuild, "CMP", c.cmp, 1) {
			grpSort, grpBuild = c.kind, true
		}
	}

	lb := gofacts.LeanBool
	out := fmt.Sprintf(`import Nv.Model.C02
set_option linter.unusedVariables false
/-! GENERATED by `+"`c02 extract`"+` from syncx/keylock/{keylocker,tlocker,group,tgroup}.go — do not edit. -/
namespace Nv.Gen.C02
def cfg : Nv.C02.Cfg := ⟨.%s, .%s, .%s⟩
def facts : Nv.C02.Facts := ⟨%s, %s, %s, %s, %s, %s, %s, %s, %s⟩
end Nv.Gen.C02
`, guard, countAt, grpSort, lb(lockShape), lb(unlockShape), lb(multiGet), lb(multiLock), lb(multiUn), lb(grpSingle), lb(grpMulti), lb(grpBuild), lb(sameTryFree))
	if err := gofacts.WriteIfChanged(filepath.Join(leanDir, "Nv/Gen/C02.lean"), out); err != nil {
		fmt.Fprintln(os.Stderr, err)
		os.Exit(2)
	}
	fmt.Printf("extract C02: freeGuard=%s countAt=%s(%s) grpSort=%s facts lock=%v unlock=%v multiGet=%v multiLock=%v multiUnlock=%v grpSingle=%v grpMulti=%v grpBuild=%v sameTryFree=%v\n",
		guard, countAt, strings.Join(places, ","), grpSort, lockShape, unlockShape, multiGet, multiLock, multiUn, grpSingle, grpMulti, grpBuild, sameTryFree)
}
