// Command c02: extractor and correspondence runner for property C02 (syncx/keylock).
package main

import (
	"fmt"
	"os"
	"path/filepath"
	"strings"

	"nvharness/lib/corr"
	"nvharness/lib/gofacts"
	_ "nvharness/lib/quiet"
	"nvharness/lib/rng"
)

func main() {
	if len(os.Args) < 2 {
		fmt.Fprintln(os.Stderr, "usage: c02 extract <repo> <leanDir> | corr …")
		os.Exit(2)
	}
	switch os.Args[1] {
	case "extract":
		extract(os.Args[2], os.Args[3])
	case "corr":
		corr.Main(spec(), os.Args[2:])
	case "runone":
		runOne()
	case "gen": // c02 gen <seed> <tier> <from> <to>: print generated cases (diagnostics)
		dumpCases(os.Args[2:])
	default:
		os.Exit(2)
	}
}

func dumpCases(a []string) {
	var seed uint64
	var from, to int
	fmt.Sscan(a[0], &seed)
	fmt.Sscan(a[2], &from)
	fmt.Sscan(a[3], &to)
	sp := spec()
	root := rng.New(seed)
	for i := from; i < to; i++ {
		c := sp.Gen(root.Fork(uint64(i)), a[1], i)
		fmt.Printf("# case %d %s\n%s\n", i, c.Tag, strings.Join(c.Lines, "\n"))
	}
}

// ---------------------------------------------------------------- extract

// Every fact compares the WHOLE canonical declaration (gofacts.Canon: receiver, signature and body; locals renamed
// v1, v2, …; white space collapsed) of a method with the canonical text of the source the model was written against —
// 31 methods and helpers. A renamed local does not break a fact; any inserted, removed or moved statement does.
// Types, constructors, package variables and the file set are compared by bin/check S2b.

func want(src string) string {
	c, err := gofacts.CanonText(src)
	if err != nil {
		fmt.Fprintln(os.Stderr, "extract: bad expectation:", err, src)
		os.Exit(2)
	}
	return c
}

func got(f *gofacts.File, recv, name string) string {
	fd := f.Func(recv, name)
	if fd == nil {
		return "<missing>"
	}
	return f.Canon(fd)
}

const lookupOrMk = `d.locker.Lock()
	wrLocker, ok = d.lockMap[key]
	if !ok {
		wrLocker = &wrapLocker{}
		d.lockMap[key] = wrLocker
	}
`

// lockSrc: Lock/RLock with the count raised before blocking (today) or after the blocking call.
func lockSrc(recv, keyT, name, cnt string, after bool) string {
	head := "func (d *" + recv + ") " + name + "(key " + keyT + ") {\n var (\n wrLocker *wrapLocker\n ok bool\n)\n" + lookupOrMk
	if after {
		return head + "d.locker.Unlock()\n wrLocker.rwLocker." + name + "()\n wrLocker." + cnt + "++\n}"
	}
	return head + "wrLocker." + cnt + "++\n d.locker.Unlock()\n wrLocker.rwLocker." + name + "()\n}"
}

func unlockSrc(recv, keyT, decl, name, cnt string) string {
	return "func (d *" + recv + ") " + name + "(key " + keyT + ") {\n" + decl + "\n d.locker.Lock()\n wrLocker = d.lockMap[key]\n wrLocker.rwLocker." + name +
		"()\n wrLocker." + cnt + "--\n d.tryFree(key, wrLocker)\n d.locker.Unlock()\n}"
}

func getSrc(name, cnt string) string {
	return "func (d *TKeyLocker[T]) " + name + `(keys []T) []*wrapLocker {
	var (
		wrLocker *wrapLocker
		ok       bool
		ws       []*wrapLocker
	)
	ws = make([]*wrapLocker, len(keys))
	d.locker.Lock()
	for i, key := range keys {
		wrLocker, ok = d.lockMap[key]
		if !ok {
			wrLocker = &wrapLocker{}
			d.lockMap[key] = wrLocker
		}
		wrLocker.` + cnt + `++
		ws[i] = wrLocker
	}
	d.locker.Unlock()
	return ws
}`
}

func multiLockSrc(name, get, blk string) string {
	return "func (d *TKeyLocker[T]) " + name + "(keys []T) {\n var ws = d." + get + "(keys)\n for _, wrLocker := range ws {\n wrLocker.rwLocker." + blk + "()\n }\n}"
}

func multiUnlockSrc(name, cnt, blk string) string {
	return "func (d *TKeyLocker[T]) " + name + "(keys []T) {\n var wrLocker *wrapLocker\n d.locker.Lock()\n for _, key := range keys {\n wrLocker = d.lockMap[key]\n wrLocker.rwLocker." + blk +
		"()\n wrLocker." + cnt + "--\n d.tryFree(key, wrLocker)\n }\n d.locker.Unlock()\n}"
}

func tryFreeSrc(recv, keyT, cond string) string {
	body := "if " + cond + " {\n delete(d.lockMap, key)\n }"
	if cond == "" {
		body = ""
	}
	return "func (d *" + recv + ") tryFree(key " + keyT + ", wrLocker *wrapLocker) {\n" + body + "\n}"
}

func guardOf(c, recv, keyT string) string {
	for _, x := range []struct{ cond, kind string }{
		{"wrLocker.readCount == 0 && wrLocker.writeCount == 0", "bothZero"}, {"wrLocker.writeCount == 0 && wrLocker.readCount == 0", "bothZero"},
		{"wrLocker.readCount == 0", "readZero"}, {"wrLocker.writeCount == 0", "writeZero"}, {"", "never"}} {
		if c == want(tryFreeSrc(recv, keyT, x.cond)) {
			return x.kind
		}
	}
	return "unknown"
}

func grpLocksSrc(name, get, blk string) string {
	return "func (w *TKeyLockerGrp[T]) " + name + "(keys []T) {\n var ms = w.calculateSortedMultiKeys(keys)\n var ws = make([]*wrapLocker, 0, len(keys))\n for _, ks := range ms {\n ws = append(ws, w.ls[ks.index]." + get +
		"(ks.ks)...)\n }\n for _, wr := range ws {\n wr.rwLocker." + blk + "()\n }\n}"
}

func grpUnlocksSrc(name string) string {
	return "func (w *TKeyLockerGrp[T]) " + name + "(keys []T) {\n var m = w.calculateSortedMultiKeys(keys)\n for _, ks := range m {\n w.ls[ks.index]." + name + "(ks.ks)\n }\n}"
}

const grpBuildSrc = `func (w *TKeyLockerGrp[T]) calculateSortedMultiKeys(keys []T) []multiKeyT[T] {
	var m = make(map[int][]T)
	for _, key := range keys {
		var i = w.calKeyFn(key)
		m[i] = append(m[i], key)
	}
	var ms = make([]multiKeyT[T], 0, len(m))
	for i, ks := range m {
		ms = append(ms, multiKeyT[T]{index: i, ks: ks})
	}
	slices.SortFunc[multiKeyT[T]](ms, func(a, b multiKeyT[T]) bool {
		return CMP
	})
	return ms
}`

func extract(repo, leanDir string) {
	kf := gofacts.MustLoad(repo, "syncx/keylock/keylocker.go")
	tf := gofacts.MustLoad(repo, "syncx/keylock/tlocker.go")
	gf := gofacts.MustLoad(repo, "syncx/keylock/group.go")
	tgf := gofacts.MustLoad(repo, "syncx/keylock/tgroup.go")

	type site struct {
		f                *gofacts.File
		recv, name, keyT string
		decl             string // declaration form used by the unlock paths of that file
	}
	sites := []site{{kf, "KeyLocker", "KeyLocker", "interface{}", "var (\n wrLocker *wrapLocker\n)"}, {tf, "TKeyLocker", "TKeyLocker[T]", "T", "var wrLocker *wrapLocker"}}
	lockShape, unlockShape := true, true
	var places []string
	for _, s := range sites {
		for _, x := range []struct{ name, cnt string }{{"Lock", "writeCount"}, {"RLock", "readCount"}} {
			switch b := got(s.f, s.recv, x.name); b {
			case want(lockSrc(s.name, s.keyT, x.name, x.cnt, false)):
				places = append(places, "beforeBlock")
			case want(lockSrc(s.name, s.keyT, x.name, x.cnt, true)):
				places = append(places, "afterBlock")
			default:
				places = append(places, "unknown")
				lockShape = false
			}
		}
		for _, x := range []struct{ name, cnt string }{{"Unlock", "writeCount"}, {"RUnlock", "readCount"}} {
			if got(s.f, s.recv, x.name) != want(unlockSrc(s.name, s.keyT, s.decl, x.name, x.cnt)) {
				unlockShape = false
			}
		}
	}
	multiGet, multiLock, multiUn := true, true, true
	for _, x := range []struct{ get, cnt, lock, blk, un, unblk string }{
		{"getWriteLocks", "writeCount", "Locks", "Lock", "Unlocks", "Unlock"},
		{"getReadLocks", "readCount", "RLocks", "RLock", "RUnlocks", "RUnlock"}} {
		if got(tf, "TKeyLocker", x.get) == want(getSrc(x.get, x.cnt)) {
			places = append(places, "beforeBlock")
		} else {
			places = append(places, "unknown")
			multiGet = false
		}
		if got(tf, "TKeyLocker", x.lock) != want(multiLockSrc(x.lock, x.get, x.blk)) {
			multiLock = false
		}
		if got(tf, "TKeyLocker", x.un) != want(multiUnlockSrc(x.un, x.cnt, x.unblk)) {
			multiUn = false
		}
	}
	countAt := places[0]
	for _, p := range places {
		if p != countAt {
			countAt = "unknown"
		}
	}

	g1, g2 := guardOf(got(kf, "KeyLocker", "tryFree"), "KeyLocker", "interface{}"), guardOf(got(tf, "TKeyLocker", "tryFree"), "TKeyLocker[T]", "T")
	sameTryFree := g1 == g2
	guard := g1
	if !sameTryFree {
		guard = "unknown"
	}

	grpSingle := true
	for _, s := range []struct {
		f                *gofacts.File
		recv, name, keyT string
		ret              string
	}{{gf, "KeyLockerGrp", "KeyLockerGrp", "interface{}", "*KeyLocker"}, {tgf, "TKeyLockerGrp", "TKeyLockerGrp[T]", "T", "*TKeyLocker[T]"}} {
		if got(s.f, s.recv, "calculateKey") != want("func (w *"+s.name+") calculateKey(key "+s.keyT+") "+s.ret+" {\n var i = w.calKeyFn(key)\n return w.ls[i]\n}") {
			grpSingle = false
		}
		for _, n := range []string{"Lock", "Unlock", "RLock", "RUnlock"} {
			if got(s.f, s.recv, n) != want("func (w *"+s.name+") "+n+"(key "+s.keyT+") {\n w.calculateKey(key)."+n+"(key)\n}") {
				grpSingle = false
			}
		}
	}
	grpMulti := got(tgf, "TKeyLockerGrp", "Locks") == want(grpLocksSrc("Locks", "getWriteLocks", "Lock")) &&
		got(tgf, "TKeyLockerGrp", "RLocks") == want(grpLocksSrc("RLocks", "getReadLocks", "RLock")) &&
		got(tgf, "TKeyLockerGrp", "Unlocks") == want(grpUnlocksSrc("Unlocks")) &&
		got(tgf, "TKeyLockerGrp", "RUnlocks") == want(grpUnlocksSrc("RUnlocks"))
	build := got(tgf, "TKeyLockerGrp", "calculateSortedMultiKeys")
	grpSort := "unknown"
	grpBuild := false
	for _, c := range []struct{ cmp, kind string }{{"a.index < b.index", "asc"}, {"b.index > a.index", "asc"}, {"a.index > b.index", "desc"}, {"b.index < a.index", "desc"}} {
		if build == want(strings.Replace(grpBuildSrc, "CMP", c.cmp, 1)) {
			grpSort, grpBuild = c.kind, true
		}
	}

	lb := gofacts.LeanBool
	out := fmt.Sprintf(`import Nv.Model.C02
set_option linter.unusedVariables false
/-! GENERATED by `+"`c02 extract`"+` from syncx/keylock/{keylocker,tlocker,group,tgroup}.go — do not edit. -/
namespace Nv.Gen.C02
def cfg : Nv.C02.Cfg := ⟨.%s, .%s, .%s⟩
def facts : Nv.C02.Facts := ⟨%s, %s, %s, %s, %s, %s, %s, %s, %s⟩
end Nv.Gen.C02
`, guard, countAt, grpSort, lb(lockShape), lb(unlockShape), lb(multiGet), lb(multiLock), lb(multiUn), lb(grpSingle), lb(grpMulti), lb(grpBuild), lb(sameTryFree))
	if err := gofacts.WriteIfChanged(filepath.Join(leanDir, "Nv/Gen/C02.lean"), out); err != nil {
		fmt.Fprintln(os.Stderr, err)
		os.Exit(2)
	}
	fmt.Printf("extract C02: freeGuard=%s countAt=%s(%s) grpSort=%s facts lock=%v unlock=%v multiGet=%v multiLock=%v multiUnlock=%v grpSingle=%v grpMulti=%v grpBuild=%v sameTryFree=%v\n",
		guard, countAt, strings.Join(places, ","), grpSort, lockShape, unlockShape, multiGet, multiLock, multiUn, grpSingle, grpMulti, grpBuild, sameTryFree)
}
