package main

import (
	"fmt"
	"os"
	"path/filepath"
	"regexp"
	"sort"
	"strconv"
	"strings"

	"nvharness/lib/gofacts"
)

// expected normalised bodies of the small functions the Lean model is written against. A function whose body
// differs makes its fact `false` (tie broken: the model no longer knows what the code does) — never guessed.
// ReaderX.Read and ReaderX.ZReadN are not in this table: they are classified into the model parameter `Cfg`.
var expectBuf = map[string]string{
	"Len":   `{ return b.buffer.Len() }`,
	"Read":  `{ var l = len(p) if l == 0 { return nil } var size, err = b.buffer.Read(p) if err != nil { return err } if size != l { return ErrByteBufferEmpty } return nil }`,
	"Write": `{ _, _ = b.buffer.Write(p) }`,
	"Bytes": `{ return b.buffer.Bytes() }`,
	"Reset": `{ b.buffer.Reset() }`,

	"ReadU16":  `{ var u16buf [2]byte var err = b.Read(u16buf[:]) if err != nil { return 0, err } var u16 = binary.LittleEndian.Uint16(u16buf[:]) return u16, err }`,
	"WriteU16": `{ var u16buf [2]byte binary.LittleEndian.PutUint16(u16buf[:], v) b.Write(u16buf[:]) }`,
	"ReadU32":  `{ var u32buf [4]byte var err = b.Read(u32buf[:]) if err != nil { return 0, err } var u32 = binary.LittleEndian.Uint32(u32buf[:]) return u32, err }`,
	"WriteU32": `{ var u32buf [4]byte binary.LittleEndian.PutUint32(u32buf[:], v) b.Write(u32buf[:]) }`,
	"ReadU64":  `{ var u64buf [8]byte var err = b.Read(u64buf[:]) if err != nil { return 0, err } var u64 = binary.LittleEndian.Uint64(u64buf[:]) return u64, err }`,
	"WriteU64": `{ var u64buf [8]byte binary.LittleEndian.PutUint64(u64buf[:], v) b.Write(u64buf[:]) }`,

	"ReadI16":  `{ var u16, err = b.ReadU16() return int16(u16), err }`,
	"WriteI16": `{ b.WriteU16(uint16(v)) }`,
	"ReadI32":  `{ var u32, err = b.ReadU32() return int32(u32), err }`,
	"WriteI32": `{ b.WriteU32(uint32(v)) }`,
	"ReadI64":  `{ var u64, err = b.ReadU64() return int64(u64), err }`,
	"WriteI64": `{ b.WriteU64(uint64(v)) }`,

	"ReadF64":  `{ var u64, err = b.ReadU64() return math.Float64frombits(u64), err }`,
	"WriteF64": `{ b.WriteU64(math.Float64bits(v)) }`,

	"ReadBool":  `{ var x, err = b.ReadU8() if err != nil { return false, err } return x != 0, nil }`,
	"WriteBool": `{ if v { _ = b.buffer.WriteByte(1) } else { _ = b.buffer.WriteByte(0) } }`,
	"ReadU8":    `{ return b.buffer.ReadByte() }`,
	"WriteU8":   `{ _ = b.buffer.WriteByte(v) }`,

	"ReadVarU64":  `{ return binary.ReadUvarint(b.buffer) }`,
	"WriteVarU64": `{ var u64buf [12]byte var n = binary.PutUvarint(u64buf[:], v) b.Write(u64buf[:n]) }`,
	"ReadVarI64":  `{ return binary.ReadVarint(b.buffer) }`,
	"WriteVarI64": `{ var i64buf [12]byte var n = binary.PutVarint(i64buf[:], v) b.Write(i64buf[:n]) }`,
	"ReadVarU32":  `{ var v, err = binary.ReadUvarint(b.buffer) return uint32(v), err }`,
	"WriteVarU32": `{ var u64buf [12]byte var n = binary.PutUvarint(u64buf[:], uint64(v)) b.Write(u64buf[:n]) }`,
	"ReadVarI32":  `{ var v, err = binary.ReadVarint(b.buffer) return int32(v), err }`,
	"WriteVarI32": `{ var i64buf [12]byte var n = binary.PutVarint(i64buf[:], int64(v)) b.Write(i64buf[:n]) }`,

	"ReadString":       `{ var n, err = b.ReadU32() if err != nil { return "", err } var size = int(n) var data = b.buffer.Next(size) if len(data) != size { return "", ErrByteBufferEmpty } return string(data), nil }`,
	"WriteString":      `{ var size = uint32(len(val)) b.WriteU32(size) _, _ = b.buffer.WriteString(val) }`,
	"ReadLimitString":  `{ var n, err = b.ReadU32() if err != nil { return "", err } if LIMITCMP { return "", ErrSizeLimit } var size = int(n) var data = b.buffer.Next(size) if len(data) != size { return "", ErrByteBufferEmpty } return string(data), nil }`,
	"WriteLimitString": `{ var size = uint32(len(val)) if LIMITCMP { return ErrSizeLimit } b.WriteU32(size) _, _ = b.buffer.WriteString(val) return nil }`,

	"ReadN":  `{ if n <= 0 { return nil, ErrReadWrongNum } var buf = make([]byte, n) var err = b.Read(buf) return buf, err }`,
	"ZReadN": `{ if n < 0 { return nil, ErrReadWrongNum } var data = b.buffer.Next(n) if len(data) != n { return nil, ErrByteBufferEmpty } return data, nil }`,

	"ReWrite":    `{ var buf = b.buffer.Bytes() copy(buf[pos:], p) }`,
	"ReWriteU32": `{ var u32buf [4]byte binary.LittleEndian.PutUint32(u32buf[:], v) b.ReWrite(pos, u32buf[:]) }`,
}

var expectStream = map[string]string{
	"ReadU16":  `{ var u16buf [2]byte var err = b.Read(u16buf[:]) if err != nil { return 0, err } var u16 = binary.LittleEndian.Uint16(u16buf[:]) return u16, err }`,
	"ReadU32":  `{ var u32buf [4]byte var err = b.Read(u32buf[:]) if err != nil { return 0, err } var u32 = binary.LittleEndian.Uint32(u32buf[:]) return u32, err }`,
	"ReadU64":  `{ var u64buf [8]byte var err = b.Read(u64buf[:]) if err != nil { return 0, err } var u64 = binary.LittleEndian.Uint64(u64buf[:]) return u64, err }`,
	"ReadByte": `{ var p [1]byte var err = b.Read(p[:]) if err != nil { return 0, err } return p[0], nil }`,

	"ReadI16": `{ var u16, err = b.ReadU16() return int16(u16), err }`,
	"ReadI32": `{ var u32, err = b.ReadU32() return int32(u32), err }`,
	"ReadI64": `{ var u64, err = b.ReadU64() return int64(u64), err }`,
	"ReadF64": `{ var u64, err = b.ReadU64() return math.Float64frombits(u64), err }`,

	"ReadBool": `{ var x, err = b.ReadByte() if err != nil { return false, err } return x != 0, nil }`,

	"ReadString":      `{ var n, err = b.ReadU32() if err != nil { return "", err } var size = int(n) var data []byte data, err = b.ZReadN(size) if err != nil { return "", err } return string(data), nil }`,
	"ReadLimitString": `{ var n, err = b.ReadU32() if err != nil { return "", err } if LIMITCMP { return "", ErrSizeLimit } var size = int(n) var data []byte data, err = b.ZReadN(size) if err != nil { return "", err } return string(data), nil }`,

	"ReadN": `{ if n <= 0 { return nil, ErrReadWrongNum } var buf = make([]byte, n) var err = b.Read(buf) return buf, err }`,
}

var scratchRe = regexp.MustCompile(`\[(1[0-9]|[2-9][0-9])\]byte`)

var limitRe = regexp.MustCompile(`if (n|size) (>=|<=|==|!=|>|<) limit \{`)

type srcs struct {
	buf, stream *gofacts.File
}

func (s srcs) body(stream bool, name string) string {
	if stream {
		return s.stream.Body("ReaderX", name)
	}
	return s.buf.Body("BufferX", name)
}

// same reports whether the function's body equals the expected text (limit comparisons abstracted).
func (s srcs) same(stream bool, name string) bool {
	want := expectBuf[name]
	if stream {
		want = expectStream[name]
	}
	got := limitRe.ReplaceAllString(s.body(stream, name), "if LIMITCMP {")
	if strings.HasPrefix(name, "WriteVar") {
		// any scratch array of at least binary.MaxVarintLen64 bytes behaves alike
		got = scratchRe.ReplaceAllString(got, "[12]byte")
	}
	return want != "" && got == gofacts.Norm(want)
}

func (s srcs) all(stream bool, names ...string) bool {
	ok := true
	for _, n := range names {
		if !s.same(stream, n) {
			fmt.Fprintf(os.Stderr, "extract C10: body of %s.%s differs from the text the model was written against\n",
				map[bool]string{false: "BufferX", true: "ReaderX"}[stream], n)
			ok = false
		}
	}
	return ok
}

// strategy classifies ReaderX.Read.
func strategy(body string) (strat string, mapShort bool) {
	single := `{ var l = len(p) if l == 0 { return nil } var size, err = b.reader.Read(p) if err != nil { return err } if size != l { return ErrByteBufferEmpty } return nil }`
	if body == gofacts.Norm(single) {
		return "single", false
	}
	// repaired shapes: io.ReadFull on the whole slice, nothing else touching the reader
	if strings.Count(body, "b.reader") != 1 || !gofacts.Has(body, "io.ReadFull(b.reader, p)") ||
		strings.Contains(body, "for ") || strings.Contains(body, "goto ") {
		return "unknown", false
	}
	fullMapped := []string{
		`{ var l = len(p) if l == 0 { return nil } var _, err = io.ReadFull(b.reader, p) if err == io.ErrUnexpectedEOF { return ErrByteBufferEmpty } return err }`,
		`{ var _, err = io.ReadFull(b.reader, p) if err == io.ErrUnexpectedEOF { return ErrByteBufferEmpty } return err }`,
		`{ if len(p) == 0 { return nil } var _, err = io.ReadFull(b.reader, p) if err == io.ErrUnexpectedEOF { return ErrByteBufferEmpty } return err }`,
		`{ var l = len(p) if l == 0 { return nil } var _, err = io.ReadFull(b.reader, p) if errors.Is(err, io.ErrUnexpectedEOF) { return ErrByteBufferEmpty } return err }`,
	}
	for _, f := range fullMapped {
		if body == gofacts.Norm(f) {
			return "full", true
		}
	}
	fullPlain := []string{
		`{ var l = len(p) if l == 0 { return nil } var _, err = io.ReadFull(b.reader, p) return err }`,
		`{ var _, err = io.ReadFull(b.reader, p) return err }`,
		`{ if len(p) == 0 { return nil } var _, err = io.ReadFull(b.reader, p) return err }`,
	}
	for _, f := range fullPlain {
		if body == gofacts.Norm(f) {
			return "full", false
		}
	}
	return "unknown", false
}

// zeroLen classifies ReaderX.ZReadN.
func zeroLen(body string) string {
	if body == gofacts.Norm(`{ return b.ReadN(n) }`) {
		return "reject"
	}
	for _, empty := range []string{`[]byte{}`, `nil`, `make([]byte, 0)`} {
		if body == gofacts.Norm(`{ if n == 0 { return `+empty+`, nil } return b.ReadN(n) }`) {
			return "accept"
		}
	}
	return "unknown"
}

func extract(repo, leanDir string) {
	s := srcs{gofacts.MustLoad(repo, "bytex/bufferx.go"), gofacts.MustLoad(repo, "bytex/ioreader.go")}
	strat, mapShort := strategy(s.body(true, "Read"))
	zl := zeroLen(s.body(true, "ZReadN"))

	limitStrict := gofacts.Has(s.body(false, "ReadLimitString"), "if n > limit {") &&
		gofacts.Has(s.body(false, "WriteLimitString"), "if size > limit {") &&
		gofacts.Has(s.body(true, "ReadLimitString"), "if n > limit {")
	facts := []bool{
		s.all(false, "Read", "Write", "Len", "Bytes", "Reset"),
		s.all(false, "ReadU16", "WriteU16", "ReadU32", "WriteU32", "ReadU64", "WriteU64"),
		s.all(true, "ReadU16", "ReadU32", "ReadU64", "ReadByte"),
		s.all(false, "ReadI16", "WriteI16", "ReadI32", "WriteI32", "ReadI64", "WriteI64") && s.all(true, "ReadI16", "ReadI32", "ReadI64"),
		s.all(false, "ReadF64", "WriteF64") && s.all(true, "ReadF64"),
		s.all(false, "ReadBool", "WriteBool", "ReadU8", "WriteU8") && s.all(true, "ReadBool"),
		s.all(false, "ReadVarU64", "WriteVarU64", "ReadVarI64", "WriteVarI64", "ReadVarU32", "WriteVarU32", "ReadVarI32", "WriteVarI32"),
		s.all(false, "ReadString", "WriteString", "ReadLimitString", "WriteLimitString") && s.all(true, "ReadString", "ReadLimitString"),
		limitStrict,
		s.all(false, "ReadN", "ZReadN") && s.all(true, "ReadN"),
		s.all(false, "ReWrite", "ReWriteU32"),
	}
	var fs []string
	for _, f := range facts {
		fs = append(fs, gofacts.LeanBool(f))
	}
	out := fmt.Sprintf(`import Nv.Model.C10
/-! GENERATED by `+"`c10 extract`"+` from bytex/bufferx.go + bytex/ioreader.go — do not edit. -/
namespace Nv.Gen.C10
def cfg : Nv.C10.Cfg := ⟨.%s, .%s, %s⟩
def facts : Nv.C10.Facts := ⟨%s⟩
/-- width of Go's int type in the harness build (strconv.IntSize) -/
def intBits : Nat := %d
end Nv.Gen.C10
`, strat, zl, gofacts.LeanBool(mapShort), strings.Join(fs, ", "), strconv.IntSize)
	if err := gofacts.WriteIfChanged(filepath.Join(leanDir, "Nv/Gen/C10.lean"), out); err != nil {
		fmt.Fprintln(os.Stderr, err)
		os.Exit(2)
	}
	fmt.Printf("extract C10: ReaderX.Read=%s mapShort=%v ReaderX.ZReadN(0)=%s facts=%s intBits=%d\n", strat, mapShort, zl, strings.Join(fs, ","), strconv.IntSize)
}

func dump(repo string) {
	s := srcs{gofacts.MustLoad(repo, "bytex/bufferx.go"), gofacts.MustLoad(repo, "bytex/ioreader.go")}
	var names []string
	for n := range expectBuf {
		names = append(names, n)
	}
	sort.Strings(names)
	for _, n := range names {
		fmt.Printf("BufferX.%s %v\n  %s\n", n, s.same(false, n), s.body(false, n))
	}
	names = names[:0]
	for n := range expectStream {
		names = append(names, n)
	}
	names = append(names, "Read", "ZReadN")
	sort.Strings(names)
	for _, n := range names {
		fmt.Printf("ReaderX.%s %v\n  %s\n", n, s.same(true, n), s.body(true, n))
	}
}
