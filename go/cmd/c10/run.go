package main

import (
	"bytes"
	"context"
	"encoding/hex"
	"errors"
	"fmt"
	"io"
	"math"
	"os"
	"os/exec"
	"strconv"
	"strings"
	"syscall"
	"time"

	"github.com/pinealctx/neptune/bytex"
	_ "github.com/pinealctx/neptune/mpb" // linked only so that its init functions run (they could reassign bytex's error variables)

	"nvharness/lib/corr"
)

// ---------------------------------------------------------------- chunked io.Reader

// chunkReader delivers, per Read call, bytes of its first chunk only (at most len(p)). With eager it returns
// io.EOF together with the last bytes, which the io.Reader contract allows.
type chunkReader struct {
	chunks [][]byte
	eager  bool
	fail   bool // after the chunks the source fails with errSource instead of io.EOF
}

// errSource is the I/O error of a failing source (anything but io.EOF / io.ErrUnexpectedEOF).
var errSource = errors.New("source failed")

func (c *chunkReader) end() error {
	if c.fail {
		return errSource
	}
	return io.EOF
}

func (c *chunkReader) Read(p []byte) (int, error) {
	if len(c.chunks) == 0 {
		return 0, c.end()
	}
	head := c.chunks[0]
	n := copy(p, head)
	if n < len(head) {
		c.chunks[0] = head[n:]
	} else {
		c.chunks = c.chunks[1:]
	}
	if c.eager && len(c.chunks) == 0 {
		return n, c.end()
	}
	return n, nil
}

func (c *chunkReader) left() []byte {
	var out []byte
	for _, ch := range c.chunks {
		out = append(out, ch...)
	}
	return out
}

// ---------------------------------------------------------------- parsing (same rules as Oracle/C10.lean)

func parseDec(s string) (uint64, bool) {
	if len(s) == 0 || len(s) > 20 {
		return 0, false
	}
	for _, c := range s {
		if c < '0' || c > '9' {
			return 0, false
		}
	}
	v, err := strconv.ParseUint(s, 10, 64)
	if err != nil { // 20 digits above 2^64-1: out of every range used below
		return 0, false
	}
	return v, true
}

func parseU(bits uint, s string) (uint64, bool) {
	v, ok := parseDec(s)
	if !ok || (bits < 64 && v >= 1<<bits) {
		return 0, false
	}
	return v, true
}

func parseI(bits uint, s string) (int64, bool) {
	neg := strings.HasPrefix(s, "-")
	v, ok := parseDec(strings.TrimPrefix(s, "-"))
	if !ok {
		return 0, false
	}
	lim := uint64(1) << (bits - 1)
	if neg {
		if v > lim {
			return 0, false
		}
		return int64(-v), true // two's complement: exact also for v = 2^63
	}
	if v >= lim {
		return 0, false
	}
	return int64(v), true
}

func parseCount(s string) (int, bool) {
	v, ok := parseI(64, s)
	if !ok || v < -1048576 || v > 1048576 {
		return 0, false
	}
	return int(v), true
}

// patByte is byte i of the pattern `p<seed>:<n>` (same formula in Oracle/C10.lean).
func patByte(seed uint64, i int) byte { return byte((seed + 131*uint64(i) + 7*uint64(i/256)) % 256) }

// parseHex reads a byte-string argument: `-` (empty), lower-case hex pairs, or `p<seed>:<n>` = n pattern bytes
// (seed < 2^32, n <= 2^20) for values too long to spell out.
func parseHex(s string) ([]byte, bool) {
	if s == "-" {
		return []byte{}, true
	}
	if strings.HasPrefix(s, "p") {
		parts := strings.Split(s[1:], ":")
		if len(parts) != 2 {
			return nil, false
		}
		seed, ok1 := parseU(32, parts[0])
		n, ok2 := parseDec(parts[1])
		if !ok1 || !ok2 || n > 1048576 {
			return nil, false
		}
		b := make([]byte, n)
		for i := range b {
			b[i] = patByte(seed, i)
		}
		return b, true
	}
	if s == "" || len(s)%2 != 0 {
		return nil, false
	}
	for _, c := range s {
		if !((c >= '0' && c <= '9') || (c >= 'a' && c <= 'f')) {
			return nil, false
		}
	}
	b, err := hex.DecodeString(s)
	return b, err == nil
}

// showHex prints a byte string: hex up to 64 bytes, beyond that `#<length>:<digest>` (digest h := (h*31+b+1) mod 2^32).
func showHex(b []byte) string {
	if len(b) == 0 {
		return "-"
	}
	if len(b) > 64 {
		var h uint64
		for _, x := range b {
			h = (h*31 + uint64(x) + 1) % 4294967296
		}
		return fmt.Sprintf("#%d:%d", len(b), h)
	}
	return hex.EncodeToString(b)
}

// chunking parses `<k>` (uniform chunks of k bytes) or `r<seed>` (sizes 1 + x mod 8192, x := (x*1103515245+12345) mod 2^31).
func chunking(spec string, data []byte) ([][]byte, bool) {
	var out [][]byte
	if strings.HasPrefix(spec, "r") {
		x, ok := parseU(31, spec[1:])
		if !ok {
			return nil, false
		}
		for len(data) > 0 {
			x = (x*1103515245 + 12345) % 2147483648
			n := int(1 + x%8192)
			if n > len(data) {
				n = len(data)
			}
			out = append(out, data[:n])
			data = data[n:]
		}
		return out, true
	}
	k, ok := parseDec(spec)
	if !ok || k < 1 || k > 1048576 {
		return nil, false
	}
	for len(data) > 0 {
		n := int(k)
		if n > len(data) {
			n = len(data)
		}
		out = append(out, data[:n])
		data = data[n:]
	}
	return out, true
}

func parseChunks(s string) ([][]byte, bool) {
	if s == "." {
		return nil, true
	}
	var out [][]byte
	for _, part := range strings.Split(s, ",") {
		b, ok := parseHex(part)
		if !ok {
			return nil, false
		}
		out = append(out, b)
	}
	return out, true
}

func errName(err error) string {
	switch {
	case err == io.EOF:
		return "eof"
	case err == bytex.ErrByteBufferEmpty:
		return "empty"
	case err == bytex.ErrReadWrongNum:
		return "wrongNum"
	case err == bytex.ErrSizeLimit:
		return "sizeLimit"
	case err == io.ErrUnexpectedEOF:
		return "unexpectedEOF"
	case err == errSource:
		return "io"
	case err.Error() == "binary: varint overflows a 64-bit integer":
		return "overflow"
	}
	return "other:" + strings.ReplaceAll(err.Error(), " ", "_")
}

// ---------------------------------------------------------------- typed writes

// wval is a parsed write op: how to perform it, the read op that takes it back, and the value's canonical text.
type wval struct {
	op    string // wu16 …
	rop   string // matching read line ("ru16", "rlstr 5", "raw:<n>")
	text  string // canonical value as a read prints it
	apply func(b *bytex.BufferX) error
	limit uint32
	size  int // payload length for strings / raw
}

func parseWrite(f []string) (wval, bool) {
	bad := wval{}
	if len(f) < 2 {
		return bad, false
	}
	one := len(f) == 2
	switch f[0] {
	case "wbool":
		if !one || (f[1] != "0" && f[1] != "1") {
			return bad, false
		}
		v := f[1] == "1"
		return wval{op: f[0], rop: "rbool", text: strconv.FormatBool(v), apply: func(b *bytex.BufferX) error { b.WriteBool(v); return nil }}, true
	case "wu8", "wu16", "wu32", "wu64", "wvu64", "wvu32":
		bits := map[string]uint{"wu8": 8, "wu16": 16, "wu32": 32, "wu64": 64, "wvu64": 64, "wvu32": 32}[f[0]]
		if !one {
			return bad, false
		}
		v, ok := parseU(bits, f[1])
		if !ok {
			return bad, false
		}
		w := wval{op: f[0], rop: "r" + f[0][1:], text: strconv.FormatUint(v, 10)}
		switch f[0] {
		case "wu8":
			w.apply = func(b *bytex.BufferX) error { b.WriteU8(byte(v)); return nil }
		case "wu16":
			w.apply = func(b *bytex.BufferX) error { b.WriteU16(uint16(v)); return nil }
		case "wu32":
			w.apply = func(b *bytex.BufferX) error { b.WriteU32(uint32(v)); return nil }
		case "wu64":
			w.apply = func(b *bytex.BufferX) error { b.WriteU64(v); return nil }
		case "wvu64":
			w.apply = func(b *bytex.BufferX) error { b.WriteVarU64(v); return nil }
		case "wvu32":
			w.apply = func(b *bytex.BufferX) error { b.WriteVarU32(uint32(v)); return nil }
		}
		return w, true
	case "wi16", "wi32", "wi64", "wvi64", "wvi32":
		bits := map[string]uint{"wi16": 16, "wi32": 32, "wi64": 64, "wvi64": 64, "wvi32": 32}[f[0]]
		if !one {
			return bad, false
		}
		v, ok := parseI(bits, f[1])
		if !ok {
			return bad, false
		}
		w := wval{op: f[0], rop: "r" + f[0][1:], text: strconv.FormatInt(v, 10)}
		switch f[0] {
		case "wi16":
			w.apply = func(b *bytex.BufferX) error { b.WriteI16(int16(v)); return nil }
		case "wi32":
			w.apply = func(b *bytex.BufferX) error { b.WriteI32(int32(v)); return nil }
		case "wi64":
			w.apply = func(b *bytex.BufferX) error { b.WriteI64(v); return nil }
		case "wvi64":
			w.apply = func(b *bytex.BufferX) error { b.WriteVarI64(v); return nil }
		case "wvi32":
			w.apply = func(b *bytex.BufferX) error { b.WriteVarI32(int32(v)); return nil }
		}
		return w, true
	case "wf64":
		if !one || len(f[1]) != 16 {
			return bad, false
		}
		raw, ok := parseHex(f[1])
		if !ok {
			return bad, false
		}
		var bits uint64
		for _, x := range raw {
			bits = bits<<8 | uint64(x)
		}
		return wval{op: f[0], rop: "rf64", text: f[1], apply: func(b *bytex.BufferX) error { b.WriteF64(math.Float64frombits(bits)); return nil }}, true
	case "wstr":
		if !one {
			return bad, false
		}
		s, ok := parseHex(f[1])
		if !ok {
			return bad, false
		}
		return wval{op: f[0], rop: "rstr", text: showHex(s), size: len(s), apply: func(b *bytex.BufferX) error { b.WriteString(string(s)); return nil }}, true
	case "wlstr":
		if len(f) != 3 {
			return bad, false
		}
		l, ok := parseU(32, f[1])
		if !ok {
			return bad, false
		}
		s, ok := parseHex(f[2])
		if !ok {
			return bad, false
		}
		return wval{op: f[0], rop: "rlstr " + strconv.FormatUint(l, 10), text: showHex(s), size: len(s), limit: uint32(l),
			apply: func(b *bytex.BufferX) error { return b.WriteLimitString(uint32(l), string(s)) }}, true
	case "wraw":
		if !one {
			return bad, false
		}
		s, ok := parseHex(f[1])
		if !ok {
			return bad, false
		}
		return wval{op: f[0], rop: "raw:" + strconv.Itoa(len(s)), text: showHex(s), size: len(s), apply: func(b *bytex.BufferX) error { b.Write(s); return nil }}, true
	}
	return bad, false
}

// ---------------------------------------------------------------- typed reads

// reader is what BufferX and ReaderX have in common for the read ops of the protocol.
type reader interface {
	Read(p []byte) error
	ReadN(n int) ([]byte, error)
	ZReadN(n int) ([]byte, error)
	ReadBool() (bool, error)
	ReadLimitString(limit uint32) (string, error)
	ReadString() (string, error)
	ReadU16() (uint16, error)
	ReadI16() (int16, error)
	ReadU32() (uint32, error)
	ReadI32() (int32, error)
	ReadU64() (uint64, error)
	ReadI64() (int64, error)
	ReadF64() (float64, error)
}

type rop struct {
	name   string // canonical line
	isStr  bool
	varint bool // BufferX only
	run    func(r reader, u8 func() (byte, error), bx *bytex.BufferX) (string, error)
	// rawRun (read / readn / zreadn): returns the very slice the reader handed out, so that it can be looked at again later
	rawRun func(r reader) ([]byte, error)
}

// do executes the read; for the raw readers it also returns the slice itself (not a copy).
func (r rop) do(rd reader, u8 func() (byte, error), bx *bytex.BufferX) (string, []byte, error) {
	if r.rawRun != nil {
		p, err := r.rawRun(rd)
		return showHex(p), p, err
	}
	v, err := r.run(rd, u8, bx)
	return v, nil, err
}

func parseRead(f []string) (rop, bool) {
	bad := rop{}
	if len(f) == 0 {
		return bad, false
	}
	name := strings.Join(f, " ")
	u := func(v uint64, err error) (string, error) { return strconv.FormatUint(v, 10), err }
	i := func(v int64, err error) (string, error) { return strconv.FormatInt(v, 10), err }
	if len(f) == 1 {
		switch f[0] {
		case "rbool":
			return rop{name: name, run: func(r reader, _ func() (byte, error), _ *bytex.BufferX) (string, error) {
				v, err := r.ReadBool()
				return strconv.FormatBool(v), err
			}}, true
		case "ru8":
			return rop{name: name, run: func(_ reader, u8 func() (byte, error), _ *bytex.BufferX) (string, error) {
				v, err := u8()
				return u(uint64(v), err)
			}}, true
		case "ru16":
			return rop{name: name, run: func(r reader, _ func() (byte, error), _ *bytex.BufferX) (string, error) {
				v, err := r.ReadU16()
				return u(uint64(v), err)
			}}, true
		case "ri16":
			return rop{name: name, run: func(r reader, _ func() (byte, error), _ *bytex.BufferX) (string, error) {
				v, err := r.ReadI16()
				return i(int64(v), err)
			}}, true
		case "ru32":
			return rop{name: name, run: func(r reader, _ func() (byte, error), _ *bytex.BufferX) (string, error) {
				v, err := r.ReadU32()
				return u(uint64(v), err)
			}}, true
		case "ri32":
			return rop{name: name, run: func(r reader, _ func() (byte, error), _ *bytex.BufferX) (string, error) {
				v, err := r.ReadI32()
				return i(int64(v), err)
			}}, true
		case "ru64":
			return rop{name: name, run: func(r reader, _ func() (byte, error), _ *bytex.BufferX) (string, error) {
				v, err := r.ReadU64()
				return u(v, err)
			}}, true
		case "ri64":
			return rop{name: name, run: func(r reader, _ func() (byte, error), _ *bytex.BufferX) (string, error) {
				v, err := r.ReadI64()
				return i(v, err)
			}}, true
		case "rf64":
			return rop{name: name, run: func(r reader, _ func() (byte, error), _ *bytex.BufferX) (string, error) {
				v, err := r.ReadF64()
				return fmt.Sprintf("%016x", math.Float64bits(v)), err
			}}, true
		case "rvu64":
			return rop{name: name, varint: true, run: func(_ reader, _ func() (byte, error), b *bytex.BufferX) (string, error) {
				v, err := b.ReadVarU64()
				return u(v, err)
			}}, true
		case "rvi64":
			return rop{name: name, varint: true, run: func(_ reader, _ func() (byte, error), b *bytex.BufferX) (string, error) {
				v, err := b.ReadVarI64()
				return i(v, err)
			}}, true
		case "rvu32":
			return rop{name: name, varint: true, run: func(_ reader, _ func() (byte, error), b *bytex.BufferX) (string, error) {
				v, err := b.ReadVarU32()
				return u(uint64(v), err)
			}}, true
		case "rvi32":
			return rop{name: name, varint: true, run: func(_ reader, _ func() (byte, error), b *bytex.BufferX) (string, error) {
				v, err := b.ReadVarI32()
				return i(int64(v), err)
			}}, true
		case "rstr":
			return rop{name: name, isStr: true, run: func(r reader, _ func() (byte, error), _ *bytex.BufferX) (string, error) {
				v, err := r.ReadString()
				return showHex([]byte(v)), err
			}}, true
		}
		return bad, false
	}
	if len(f) != 2 {
		return bad, false
	}
	switch f[0] {
	case "rlstr":
		l, ok := parseU(32, f[1])
		if !ok {
			return bad, false
		}
		return rop{name: "rlstr " + strconv.FormatUint(l, 10), isStr: true, run: func(r reader, _ func() (byte, error), _ *bytex.BufferX) (string, error) {
			v, err := r.ReadLimitString(uint32(l))
			return showHex([]byte(v)), err
		}}, true
	case "read":
		n, ok := parseCount(f[1])
		if !ok || n < 0 {
			return bad, false
		}
		return rop{name: "read " + strconv.Itoa(n), rawRun: func(r reader) ([]byte, error) {
			p := make([]byte, n)
			err := r.Read(p)
			return p, err
		}}, true
	case "readn":
		n, ok := parseCount(f[1])
		if !ok {
			return bad, false
		}
		return rop{name: "readn " + strconv.Itoa(n), rawRun: func(r reader) ([]byte, error) { return r.ReadN(n) }}, true
	case "zreadn":
		n, ok := parseCount(f[1])
		if !ok {
			return bad, false
		}
		return rop{name: "zreadn " + strconv.Itoa(n), rawRun: func(r reader) ([]byte, error) { return r.ZReadN(n) }}, true
	}
	return bad, false
}

// ---------------------------------------------------------------- one script on the real implementation

type state struct {
	buf    *bytex.BufferX
	rd     *bytex.ReaderX
	cr     *chunkReader
	shadow *bytex.BufferX // BufferX over the same bytes as the stream (monitor only)
	split  bool           // stream and shadow already differed once: stop comparing
	kept   []keptVal      // slices handed out by Read/ReadN/ZReadN, looked at again by `recheck` and at the end

	clean   bool // buffer content is exactly the typed writes in `pending`
	pending []wval
	trunc   *wval // the next read of this value's type is from a strict prefix of its encoding
	hits    []corr.Hit
}

// keptVal is a byte slice a raw reader returned (the slice itself), with what it held at that moment.
type keptVal struct {
	who, op string
	p       []byte
	then    string
	shadow  bool
}

func (st *state) keep(who, op string, p []byte, shadow bool) {
	st.kept = append(st.kept, keptVal{who: who, op: op, p: p, then: showHex(p), shadow: shadow})
}

// checkKept: a value that was read stays what it was, whatever is read afterwards (values are immutable in the
// model; BufferX results are forgotten when the buffer is written to, see `forget`).
func (st *state) checkKept() {
	for _, k := range st.kept {
		if now := showHex(k.p); now != k.then {
			method := map[string]string{"read": "Read", "readn": "ReadN", "zreadn": "ZReadN"}[strings.Fields(k.op)[0]]
			st.hit(k.who+"."+method+":earlier-result-changed-by-later-read",
				fmt.Sprintf("%s on a %s returned %s; after the later reads of the script the same slice holds %s", k.op, k.who, k.then, now))
			break
		}
	}
}

// forget: BufferX.ZReadN hands out the buffer's own storage ("no copy"), valid until the buffer is written to.
func (st *state) forget() { st.checkKept(); st.kept = nil }

func (st *state) recheck() string {
	var parts []string
	for _, k := range st.kept {
		if !k.shadow {
			parts = append(parts, showHex(k.p))
		}
	}
	st.checkKept()
	if len(parts) == 0 {
		return "recheck=."
	}
	return "recheck=" + strings.Join(parts, ",")
}

func (st *state) hit(key, what string) {
	st.hits = append(st.hits, corr.Hit{Key: "C10:" + key, What: what})
}

func rawMatches(ropName string, n int) bool {
	return ropName == "read "+strconv.Itoa(n) || ropName == "zreadn "+strconv.Itoa(n) || (n > 0 && ropName == "readn "+strconv.Itoa(n))
}

func matches(w wval, ropName string) bool {
	if strings.HasPrefix(w.rop, "raw:") {
		return rawMatches(ropName, w.size)
	}
	return w.rop == ropName
}

func call(f func() (string, error)) (v string, err error, panicked interface{}) {
	defer func() {
		if r := recover(); r != nil {
			panicked = r
		}
	}()
	v, err = f()
	return
}

func (st *state) exec(line string) string {
	f := strings.Fields(line)
	if len(f) == 0 {
		return "bad-op"
	}
	reset := func() { st.checkKept(); *st = state{hits: st.hits} }
	if len(f) == 1 && f[0] == "sentinels" {
		return st.sentinels()
	}
	switch f[0] {
	case "bigrt":
		if len(f) != 5 {
			break
		}
		reset()
		return st.bigrt(f[1], f[2], f[3], f[4])
	case "new":
		if len(f) != 1 {
			break
		}
		reset()
		st.buf, st.clean = bytex.NewBufferX(), true
		return st.fresh("NewBufferX()")
	case "news":
		if len(f) != 2 {
			break
		}
		n, ok := parseDec(f[1])
		reset()
		if !ok || n > 1048576 {
			return "bad-op"
		}
		st.buf, st.clean = bytex.NewSizedBufferX(int(n)), true
		return st.fresh(fmt.Sprintf("NewSizedBufferX(%d)", n))
	case "load":
		if len(f) != 2 {
			break
		}
		b, ok := parseHex(f[1])
		reset()
		if !ok {
			return "bad-op"
		}
		st.buf = bytex.NewReadableBufferX(b)
		return fmt.Sprintf("ok len=%d", st.buf.Len())
	case "tload":
		if len(f) < 2 {
			break
		}
		k, okk := parseDec(f[1])
		w, okw := parseWrite(f[2:])
		reset()
		if !okk || !okw || k > 1048576 {
			return "bad-op"
		}
		tmp := bytex.NewBufferX()
		_, err, pan := call(func() (string, error) { return "", w.apply(tmp) })
		if pan != nil {
			st.hit("write:panic", fmt.Sprintf("%s panicked: %v", strings.Join(f[2:], " "), pan))
			return "panic"
		}
		if err != nil {
			st.buf = bytex.NewReadableBufferX(nil)
			st.checkLimitRefusal(w, err)
			return "err:" + errName(err) + " len=0 full=0"
		}
		full := append([]byte{}, tmp.Bytes()...)
		cut := full
		if int(k) < len(full) {
			cut = full[:k]
			st.trunc = &w
		}
		st.buf = bytex.NewReadableBufferX(append([]byte{}, cut...))
		return fmt.Sprintf("ok len=%d full=%d", st.buf.Len(), len(full))
	case "sload", "sloadf":
		if len(f) != 3 {
			break
		}
		chunks, ok := parseChunks(f[2])
		reset()
		if !ok || (f[1] != "0" && f[1] != "1") {
			return "bad-op"
		}
		st.cr = &chunkReader{chunks: chunks, eager: f[1] == "1", fail: f[0] == "sloadf"}
		st.rd = bytex.NewReaderX(st.cr)
		st.shadow = bytex.NewReadableBufferX(st.cr.left())
		return fmt.Sprintf("ok left=%d", len(st.cr.left()))
	}
	if f[0] == "new" || f[0] == "news" || f[0] == "load" || f[0] == "tload" || f[0] == "sload" || f[0] == "sloadf" || f[0] == "bigrt" {
		// ill-formed initialising line that the oracle does not recognise as one either: state unchanged
		return "bad-op"
	}
	switch {
	case st.buf != nil:
		return st.execBuf(f)
	case st.rd != nil:
		return st.execStream(f)
	}
	return "bad-op"
}

// sentinels: the package's error variables are what the model calls empty / wrongNum / sizeLimit: non-nil, pairwise
// distinct, distinct from io.EOF / io.ErrUnexpectedEOF, with their texts. (They are exported and assignable: another
// package of the module could reassign them in an init function; the harness links `mpb` for that reason.)
func (st *state) sentinels() string {
	errs := []error{bytex.ErrByteBufferEmpty, bytex.ErrReadWrongNum, bytex.ErrSizeLimit, io.EOF, io.ErrUnexpectedEOF}
	names := []string{"ErrByteBufferEmpty", "ErrReadWrongNum", "ErrSizeLimit", "io.EOF", "io.ErrUnexpectedEOF"}
	distinct := true
	for i := range errs {
		if errs[i] == nil {
			distinct = false
			st.hit("sentinel-errors:nil-or-aliased", fmt.Sprintf("bytex.%s is nil: a failed read reports no error", names[i]))
			continue
		}
		for j := 0; j < i; j++ {
			if errs[j] == errs[i] {
				distinct = false
				st.hit("sentinel-errors:nil-or-aliased", fmt.Sprintf("%s and %s are the same error value", names[j], names[i]))
			}
		}
	}
	text := func(e error) string {
		if e == nil {
			return "<nil>"
		}
		return strings.ReplaceAll(e.Error(), " ", "_")
	}
	return fmt.Sprintf("empty=%s wrongNum=%s sizeLimit=%s distinct=%v", text(errs[0]), text(errs[1]), text(errs[2]), distinct)
}

// bigrt: one value of 1 MiB … 128 MiB written (followed by the marker byte 7) and read back, from the buffer or through
// a ReaderX over uniform chunks. Monitor: the value read is the value written, the marker follows, nothing is left.
func (st *state) bigrt(kind, seedS, nS, via string) string {
	seed, ok1 := parseU(32, seedS)
	n64, ok2 := parseDec(nS)
	stream := false
	chunk := uint64(0)
	okVia := via == "buf"
	if strings.HasPrefix(via, "s") {
		chunk, okVia = parseDec(via[1:])
		okVia = okVia && chunk >= 1024 && chunk <= 134217728
		stream = true
	}
	if !ok1 || !ok2 || !okVia || (kind != "str" && kind != "raw" && kind != "lstr") || n64 < 1048577 || n64 > 134217728 {
		return "bad-op"
	}
	n := int(n64)
	data := make([]byte, n)
	var h uint64
	for i := range data {
		data[i] = patByte(seed, i)
		h = (h*31 + uint64(data[i]) + 1) % 4294967296
	}
	want := fmt.Sprintf("#%d:%d", n, h)
	out, _, pan := call(func() (string, error) {
		b := bytex.NewBufferX()
		switch kind {
		case "str":
			b.WriteString(string(data))
		case "lstr":
			if err := b.WriteLimitString(uint32(n), string(data)); err != nil {
				return "err:" + errName(err), nil
			}
		default:
			b.Write(data)
		}
		b.WriteU8(7)
		var rd reader = b
		u8 := b.ReadU8
		left := b.Len
		if stream {
			all := append([]byte{}, b.Bytes()...)
			chunks, _ := chunking(strconv.FormatUint(chunk, 10), all)
			cr := &chunkReader{chunks: chunks}
			rx := bytex.NewReaderX(cr)
			rd, u8, left = rx, rx.ReadByte, func() int { return len(cr.left()) }
		}
		var got string
		var err error
		switch kind {
		case "str":
			var v string
			v, err = rd.ReadString()
			got = showHex([]byte(v))
		case "lstr":
			var v string
			v, err = rd.ReadLimitString(uint32(n))
			got = showHex([]byte(v))
		default:
			var v []byte
			v, err = rd.ReadN(n)
			got = showHex(v)
		}
		if err != nil {
			return fmt.Sprintf("err:%s left=%d", errName(err), left()), nil
		}
		next, err := u8()
		if err != nil {
			return fmt.Sprintf("v=%s next=err:%s left=%d", got, errName(err), left()), nil
		}
		return fmt.Sprintf("v=%s next=%d left=%d", got, next, left()), nil
	})
	if pan != nil {
		st.hit("read:panic", fmt.Sprintf("bigrt %s %d: %v", kind, n, pan))
		return "panic"
	}
	if out != "v="+want+" next=7 left=0" {
		how := "the buffer"
		if stream {
			how = fmt.Sprintf("a stream of %d-byte chunks", chunk)
		}
		st.hit("roundtrip:big-"+kind, fmt.Sprintf("a %s value of %d bytes (%s) followed by the byte 7, read back from %s: %s", kind, n, want, how, out))
	}
	return out
}

// varintShape looks at the bytes a varint read is about to see (independently of encoding/binary and of the model):
// "" = a complete varint of at most 64 bits; otherwise why no value may come out of it.
func varintShape(b []byte) string {
	for i := 0; i < 10; i++ {
		if i >= len(b) {
			return "truncated"
		}
		if b[i] < 0x80 {
			if i == 9 && b[i] > 1 {
				return "overflowing (tenth byte > 1)"
			}
			return ""
		}
	}
	return "overflowing (ten continuation bytes)"
}

// fresh: a buffer just made by a constructor holds nothing (the theorems start from the empty buffer).
func (st *state) fresh(how string) string {
	if n := st.buf.Len(); n != 0 || len(st.buf.Bytes()) != 0 {
		st.hit("constructor:fresh-buffer-not-empty", fmt.Sprintf("%s holds %d unread bytes", how, n))
	}
	return fmt.Sprintf("ok len=%d", st.buf.Len())
}

func (st *state) checkLimitRefusal(w wval, err error) {
	if w.op == "wlstr" && err == bytex.ErrSizeLimit && uint64(w.size) <= uint64(w.limit) {
		st.hit("WriteLimitString:within-limit-refused", fmt.Sprintf("WriteLimitString(limit=%d) refused a string of %d bytes", w.limit, w.size))
	}
}

func (st *state) execBuf(f []string) string {
	b := st.buf
	if w, ok := parseWrite(f); ok {
		st.forget()
		before := b.Len()
		_, err, p := call(func() (string, error) { return "", w.apply(b) })
		if p != nil {
			st.hit("write:panic", fmt.Sprintf("%s panicked: %v", strings.Join(f, " "), p))
			return "panic"
		}
		if err != nil {
			st.checkLimitRefusal(w, err)
			if b.Len() != before {
				st.hit("WriteLimitString:refused-but-wrote", fmt.Sprintf("%s returned %s and yet grew the buffer from %d to %d bytes", w.op, errName(err), before, b.Len()))
			}
			return fmt.Sprintf("err:%s len=%d", errName(err), b.Len())
		}
		st.pending = append(st.pending, w)
		return fmt.Sprintf("ok len=%d", b.Len())
	}
	if r, ok := parseRead(f); ok {
		malformed := ""
		if r.varint {
			malformed = varintShape(b.Bytes())
		}
		var raw []byte
		v, err, p := call(func() (v string, err error) { v, raw, err = r.do(b, b.ReadU8, b); return })
		if p != nil {
			st.hit("read:panic", fmt.Sprintf("%s panicked on a buffer: %v", r.name, p))
			return "panic"
		}
		if malformed != "" && err == nil {
			st.hit("malformed-varint:value-with-nil-error", fmt.Sprintf("%s on a %s varint returned the value %s with a nil error", r.name, malformed, v))
		}
		if r.rawRun != nil && err == nil {
			st.keep("BufferX", r.name, raw, false)
		}
		st.monitorBufRead(r, v, err)
		if err != nil {
			return fmt.Sprintf("err:%s len=%d", errName(err), b.Len())
		}
		return fmt.Sprintf("v=%s len=%d", v, b.Len())
	}
	switch f[0] {
	case "bytes":
		if len(f) == 1 {
			return "bytes=" + showHex(b.Bytes())
		}
	case "len":
		if len(f) == 1 {
			return fmt.Sprintf("len=%d", b.Len())
		}
	case "recheck":
		if len(f) == 1 {
			return st.recheck()
		}
	case "reset":
		if len(f) == 1 {
			st.forget()
			grown := cap(b.Bytes()) + 0
			b.Reset()
			st.pending, st.clean, st.trunc = nil, true, nil
			if n := b.Len(); n != 0 || len(b.Bytes()) != 0 {
				st.hit("Reset:buffer-not-empty", fmt.Sprintf("after Reset() of a buffer whose storage had grown to >= %d bytes, Len() is %d", grown, n))
			}
			return fmt.Sprintf("ok len=%d", b.Len())
		}
	case "tostream":
		// the unread bytes become the content of an io.Reader (chunked as asked) behind a new ReaderX
		if len(f) != 3 || (f[1] != "0" && f[1] != "1") {
			break
		}
		data := append([]byte{}, b.Bytes()...)
		chunks, ok := chunking(f[2], data)
		if !ok {
			break
		}
		st.forget()
		st.cr = &chunkReader{chunks: chunks, eager: f[1] == "1"}
		st.rd = bytex.NewReaderX(st.cr)
		st.shadow = bytex.NewReadableBufferX(append([]byte{}, data...))
		st.buf, st.trunc, st.split = nil, nil, false
		for _, w := range st.pending {
			if strings.HasPrefix(w.op, "wv") { // ReaderX has no varint readers: nothing to claim beyond this point
				st.clean = false
			}
		}
		return fmt.Sprintf("ok left=%d", len(data))
	case "rewriteself":
		// ReWrite(pos, Bytes()[from:to]): the payload aliases the buffer's own storage
		if len(f) != 4 {
			break
		}
		pos, ok1 := parseCount(f[1])
		from, ok2 := parseDec(f[2])
		to, ok3 := parseDec(f[3])
		if !ok1 || !ok2 || !ok3 || from > to || to > uint64(b.Len()) {
			break
		}
		st.forget()
		before := append([]byte{}, b.Bytes()...)
		_, _, pan := call(func() (string, error) {
			b.ReWrite(pos, b.Bytes()[from:to])
			return "", nil
		})
		st.clean, st.trunc = false, nil
		after := append([]byte{}, b.Bytes()...)
		if n := int(to - from); pos >= 0 && pos+n <= len(before) {
			want := append([]byte{}, before...)
			copy(want[pos:], before[from:to]) // old contents of the window
			if pan != nil {
				st.hit("ReWrite:panic-in-range", fmt.Sprintf("%s on %d unread bytes panicked: %v", strings.Join(f, " "), len(before), pan))
			} else if string(want) != string(after) {
				st.hit("ReWrite:wrong-bytes-aliasing-payload", fmt.Sprintf("ReWrite(%d, Bytes()[%d:%d]) on %s gave %s, expected %s", pos, from, to, showHex(before), showHex(after), showHex(want)))
			}
		}
		if pan != nil {
			return "panic"
		}
		return "ok bytes=" + showHex(after)
	case "rewrite", "rewriteu32":
		if len(f) != 3 {
			break
		}
		pos, ok := parseCount(f[1])
		if !ok {
			break
		}
		var p []byte
		var v uint64
		if f[0] == "rewrite" {
			p, ok = parseHex(f[2])
		} else {
			v, ok = parseU(32, f[2])
			p = []byte{byte(v), byte(v >> 8), byte(v >> 16), byte(v >> 24)}
		}
		if !ok {
			break
		}
		st.forget()
		before := append([]byte{}, b.Bytes()...)
		_, _, pan := call(func() (string, error) {
			if f[0] == "rewrite" {
				b.ReWrite(pos, p)
			} else {
				b.ReWriteU32(pos, uint32(v))
			}
			return "", nil
		})
		st.clean, st.trunc = false, nil
		after := append([]byte{}, b.Bytes()...)
		if pos >= 0 && pos+len(p) <= len(before) {
			// the property: exactly the addressed bytes change
			want := append([]byte{}, before...)
			copy(want[pos:], p)
			if pan != nil {
				st.hit("ReWrite:panic-in-range", fmt.Sprintf("%s on %d unread bytes panicked: %v", strings.Join(f, " "), len(before), pan))
			} else if string(want) != string(after) {
				st.hit("ReWrite:wrong-bytes", fmt.Sprintf("%s on %s gave %s, expected %s", strings.Join(f, " "), showHex(before), showHex(after), showHex(want)))
			}
		}
		if pan != nil {
			return "panic"
		}
		return "ok bytes=" + showHex(after)
	}
	return "bad-op"
}

// monitorBufRead: (1) values written by typed writes come back from the same typed reads, and the buffer is
// empty after the last one; (2) a strict prefix of an encoding never yields a value.
func (st *state) remaining() int {
	if st.buf != nil {
		return st.buf.Len()
	}
	return len(st.cr.left())
}

func (st *state) monitorBufRead(r rop, v string, err error) {
	if st.trunc != nil {
		w := *st.trunc
		st.trunc = nil
		if matches(w, r.name) && err == nil {
			st.hit("truncated:"+w.op, fmt.Sprintf("%s returned the value %s from a strict prefix of the encoding of %s %s", r.name, v, w.op, w.text))
		}
		return
	}
	if !st.clean {
		return
	}
	if len(st.pending) == 0 {
		zero := r.name == "read 0" || r.name == "zreadn 0"
		if err == nil && !zero {
			st.hit("roundtrip:value-from-empty-buffer", fmt.Sprintf("%s returned %s although every written value had been read back", r.name, v))
		}
		return
	}
	w := st.pending[0]
	if !matches(w, r.name) {
		st.clean = false // reading something else than what was written: no claim
		return
	}
	st.pending = st.pending[1:]
	if err != nil {
		st.hit("roundtrip:"+w.op, fmt.Sprintf("%s %s was written, %s returned the error %s", w.op, w.text, r.name, errName(err)))
		st.clean = false
		return
	}
	if v != w.text {
		st.hit("roundtrip:"+w.op, fmt.Sprintf("%s %s was written, %s returned %s", w.op, w.text, r.name, v))
		st.clean = false
		return
	}
	if len(st.pending) == 0 && st.remaining() != 0 {
		st.hit("roundtrip:buffer-not-empty", fmt.Sprintf("all written values were read back but %d bytes are left", st.remaining()))
	}
}

func (st *state) execStream(f []string) string {
	if f[0] == "xrstr" || f[0] == "xrlstr" {
		return st.execProbe(f)
	}
	if len(f) == 1 && f[0] == "recheck" {
		return st.recheck()
	}
	if f[0] == "feed" {
		// more bytes arrive on the source, behind what it still holds (a source that had reported EOF delivers again);
		// the shadow BufferX is written the same bytes
		if len(f) != 2 {
			return "bad-op"
		}
		chunks, ok := parseChunks(f[1])
		if !ok {
			return "bad-op"
		}
		st.checkKept()
		var kept []keptVal
		for _, k := range st.kept { // BufferX.ZReadN results are valid until the buffer is written to
			if !k.shadow {
				kept = append(kept, k)
			}
		}
		st.kept = kept
		st.clean = false // the source now also carries bytes that no typed write of this script produced
		for _, c := range chunks {
			c = append([]byte{}, c...)
			st.cr.chunks = append(st.cr.chunks, c)
			st.shadow.Write(c)
		}
		return fmt.Sprintf("ok left=%d", len(st.cr.left()))
	}
	r, ok := parseRead(f)
	if !ok || r.varint {
		return "bad-op"
	}
	left := st.cr.left()
	if r.isStr && len(left) >= 4 {
		n := uint32(left[0]) | uint32(left[1])<<8 | uint32(left[2])<<16 | uint32(left[3])<<24
		if n > 16777216 {
			return "guard:huge"
		}
	}
	var raw []byte
	v, err, p := call(func() (v string, err error) { v, raw, err = r.do(st.rd, st.rd.ReadByte, nil); return })
	if p != nil {
		st.hit("read:panic", fmt.Sprintf("%s panicked on a stream: %v", r.name, p))
		return "panic"
	}
	if r.rawRun != nil && err == nil {
		st.keep("ReaderX", r.name, raw, false)
	}
	nleft := len(st.cr.left())
	st.monitorBufRead(r, v, err) // values written before `tostream` come back through the stream as well
	// monitor: the buffer reader over the same bytes decodes the same
	if !st.split {
		var sraw []byte
		sv, serr, sp := call(func() (v string, err error) { v, sraw, err = r.do(st.shadow, st.shadow.ReadU8, st.shadow); return })
		if sp == nil && r.rawRun != nil && serr == nil {
			st.keep("BufferX", r.name, sraw, true)
		}
		if sp == nil {
			same := (err == nil) == (serr == nil) && (err != nil || v == sv) && nleft == st.shadow.Len()
			if !same {
				st.split = true
				show := func(v string, e error, n int) string {
					if e != nil {
						return fmt.Sprintf("err:%s left=%d", errName(e), n)
					}
					return fmt.Sprintf("v=%s left=%d", v, n)
				}
				what := fmt.Sprintf("%s: ReaderX over chunks gives %s, BufferX over the same bytes gives %s", r.name, show(v, err, nleft), show(sv, serr, st.shadow.Len()))
				switch {
				case st.cr.fail && err == nil && serr != nil:
					st.hit("ReaderX:source-error-swallowed", fmt.Sprintf("%s: the source failed before delivering the bytes of this value (BufferX over the delivered bytes: err:%s), yet ReaderX returned the value %s with a nil error", r.name, errName(serr), v))
				case err == bytex.ErrReadWrongNum && serr == nil && sv == "-":
					st.hit("ReaderX-vs-BufferX:empty-string-rejected-by-stream", what)
				case err != nil && (serr == nil || nleft != st.shadow.Len()) && (err == bytex.ErrByteBufferEmpty || err == io.EOF || err == io.ErrUnexpectedEOF):
					// a value was there (or bytes are still pending) but the stream reader gave up
					st.hit("ReaderX-vs-BufferX:stream-gives-up-where-buffer-decodes", what)
				default:
					st.hit("ReaderX-vs-BufferX:decode-differently", what)
				}
			}
		}
	}
	if err != nil {
		return fmt.Sprintf("err:%s left=%d", errName(err), nleft)
	}
	return fmt.Sprintf("v=%s left=%d", v, nleft)
}

// execProbe (`xrstr`, `xrlstr <limit>`): the string read is executed by the real ReaderX in a CHILD process whose
// address space is capped at 4 GiB, because a pending length field up to 2^32-1 makes ReadN allocate that much
// before a single body byte is read. T-observable: the child either answers like the model or dies with the Go
// runtime's fatal "out of memory" (not an error value, not a recoverable panic). Terminal: the state is dropped.
func (st *state) execProbe(f []string) string {
	rd := []string{"rstr"}
	if f[0] == "xrlstr" {
		rd = []string{"rlstr"}
		rd = append(rd, f[1:]...)
	} else if len(f) != 1 {
		return "bad-op"
	}
	r, ok := parseRead(rd)
	if !ok {
		return "bad-op"
	}
	var parts []string
	for _, c := range st.cr.chunks {
		parts = append(parts, showRawHex(c))
	}
	chunks := "."
	if len(parts) > 0 {
		chunks = strings.Join(parts, ",")
	}
	eager := "0"
	if st.cr.eager {
		eager = "1"
	}
	hits := st.hits
	*st = state{hits: hits}
	exe, err := os.Executable()
	if err != nil {
		return "probe-failed:" + err.Error()
	}
	ctx, cancel := context.WithTimeout(context.Background(), 60*time.Second)
	defer cancel()
	cmd := exec.CommandContext(ctx, exe, "child", eager, chunks, r.name)
	var out, errb bytes.Buffer
	cmd.Stdout, cmd.Stderr = &out, &errb
	runErr := cmd.Run()
	switch {
	case ctx.Err() != nil:
		return "fatal:timeout"
	case runErr == nil:
		return strings.TrimSpace(out.String())
	case strings.Contains(errb.String(), "out of memory") || strings.Contains(errb.String(), "cannot allocate memory"):
		return "fatal:out-of-memory"
	}
	return "fatal:other"
}

func showRawHex(b []byte) string {
	if len(b) == 0 {
		return "-"
	}
	return hex.EncodeToString(b)
}

// child is the body of the capped child process: `c10 child <eager> <chunks> <read op>`.
func child(args []string) {
	if len(args) < 3 {
		os.Exit(3)
	}
	lim := syscall.Rlimit{Cur: 4 << 30, Max: 4 << 30}
	if err := syscall.Setrlimit(syscall.RLIMIT_AS, &lim); err != nil {
		fmt.Println("probe-failed:setrlimit")
		return
	}
	st := &state{}
	st.exec("sload " + args[0] + " " + args[1])
	if st.rd == nil {
		os.Exit(3)
	}
	r, ok := parseRead(strings.Fields(args[2]))
	if !ok {
		os.Exit(3)
	}
	v, _, err := r.do(st.rd, st.rd.ReadByte, nil)
	if err != nil {
		fmt.Printf("err:%s left=%d\n", errName(err), len(st.cr.left()))
		return
	}
	fmt.Printf("v=%s left=%d\n", v, len(st.cr.left()))
}

// runCase executes a script; a hang (there is none in today's code) is cut after 20 s.
func runCase(c corr.Case) corr.Result {
	done := make(chan corr.Result, 1)
	go func() {
		st := &state{}
		st.sentinels() // monitor only: the error variables are intact whatever else is linked in
		var res corr.Result
		for _, l := range c.Lines {
			var out string
			func() {
				defer func() {
					if r := recover(); r != nil {
						out = "panic"
						st.hit("harness:panic", fmt.Sprintf("%s: %v", l, r))
					}
				}()
				out = st.exec(l)
			}()
			res.Outs = append(res.Outs, out)
		}
		st.checkKept() // implicit final recheck
		res.Hits = st.hits
		done <- res
	}()
	select {
	case r := <-done:
		return r
	case <-time.After(20 * time.Second):
		var res corr.Result
		for range c.Lines {
			res.Outs = append(res.Outs, "hang")
		}
		res.Hits = []corr.Hit{{Key: "C10:hang", What: "script did not finish within 20 s: " + strings.Join(c.Lines, " ; ")}}
		return res
	}
}
