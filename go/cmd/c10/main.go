// Command c10: extractor and correspondence runner for property C10 (bytex.BufferX / bytex.ReaderX).
package main

import (
	"fmt"
	"os"

	"nvharness/lib/corr"
)

func main() {
	if len(os.Args) < 2 {
		fmt.Fprintln(os.Stderr, "usage: c10 extract|corr|dump …")
		os.Exit(2)
	}
	switch os.Args[1] {
	case "extract":
		extract(os.Args[2], os.Args[3])
	case "dump": // prints the normalised bodies the fact table is written against (maintenance aid)
		dump(os.Args[2])
	case "child": // capped child process of the `xrstr` probe
		child(os.Args[2:])
	case "corr":
		corr.Main(spec(), os.Args[2:])
	default:
		os.Exit(2)
	}
}
