package main

import (
	"fmt"
	"strconv"
	"strings"

	"github.com/pinealctx/neptune/bytex"

	"nvharness/lib/corr"
	"nvharness/lib/rng"
)

// ---------------------------------------------------------------- value generators (biased to the boundaries)

func genU(r *rng.R, bits uint) uint64 {
	max := ^uint64(0)
	if bits < 64 {
		max = 1<<bits - 1
	}
	switch r.Intn(8) {
	case 0:
		return 0
	case 1:
		return max
	case 2: // around a power of two / a 7-bit group boundary
		k := uint(r.Intn(int(bits)))
		v := uint64(1) << k
		return (v + uint64(r.Intn(3)) - 1) & max
	case 3:
		k := uint(7 * r.Range(1, 9))
		if k >= bits {
			k = bits - 1
		}
		return ((uint64(1) << k) + uint64(r.Intn(3)) - 1) & max
	case 4:
		return uint64(r.Intn(300)) & max
	}
	return r.U64() & max
}

func genI(r *rng.R, bits uint) int64 {
	min := int64(-1) << (bits - 1)
	max := -(min + 1)
	switch r.Intn(8) {
	case 0:
		return min
	case 1:
		return max
	case 2:
		return int64(r.Range(-2, 2))
	case 3:
		k := uint(r.Intn(int(bits - 1)))
		v := int64(1)<<k + int64(r.Range(-1, 1))
		if r.Bool() {
			v = -v
		}
		return v
	case 4:
		return int64(r.Range(-70, 70))
	}
	return int64(r.U64()) >> (64 - bits)
}

var f64Specials = []uint64{
	0, 0x8000000000000000, 0x3ff0000000000000, 0xbff0000000000000, 0x7ff0000000000000, 0xfff0000000000000,
	0x7ff8000000000000, 0x7ff8000000000001, 0x7ff0000000000001, 0xfff8000000000000, 0xffffffffffffffff, 0x7fffffffffffffff,
	0x0000000000000001, 0x000fffffffffffff, 0x0010000000000000, 0x7fefffffffffffff, 0x7ff4000000000000, 0xfff0000000000123,
}

func genBytes(r *rng.R, n int) []byte {
	b := make([]byte, n)
	mode := r.Intn(7)
	for i := range b {
		switch mode {
		case 0:
			b[i] = 0xff
		case 1:
			b[i] = 0x80
		case 2:
			b[i] = 0
		case 3, 4: // tiny numbers: plausible length fields wherever a read starts
			b[i] = byte(r.Intn(4))
			if r.Chance(3, 4) {
				b[i] = 0
			}
		default:
			b[i] = byte(r.U64())
		}
	}
	return b
}

func genLen(r *rng.R) int {
	switch r.Intn(8) {
	case 0, 1:
		return 0
	case 2:
		return 1
	case 3:
		return r.PickInt(127, 128, 255, 256, 300)
	}
	return r.Range(1, 24)
}

// genWrite returns one typed write line. wide = also raw bytes and size-limited strings beyond their limit.
func genWrite(r *rng.R) string {
	switch r.Intn(17) {
	case 0:
		return "wbool " + r.Pick("0", "1")
	case 1:
		return "wu8 " + strconv.FormatUint(genU(r, 8), 10)
	case 2:
		return "wu16 " + strconv.FormatUint(genU(r, 16), 10)
	case 3:
		return "wi16 " + strconv.FormatInt(genI(r, 16), 10)
	case 4:
		return "wu32 " + strconv.FormatUint(genU(r, 32), 10)
	case 5:
		return "wi32 " + strconv.FormatInt(genI(r, 32), 10)
	case 6:
		return "wu64 " + strconv.FormatUint(genU(r, 64), 10)
	case 7:
		return "wi64 " + strconv.FormatInt(genI(r, 64), 10)
	case 8:
		if r.Chance(2, 3) {
			return fmt.Sprintf("wf64 %016x", f64Specials[r.Intn(len(f64Specials))])
		}
		return fmt.Sprintf("wf64 %016x", r.U64())
	case 9:
		return "wvu64 " + strconv.FormatUint(genU(r, 64), 10)
	case 10:
		return "wvi64 " + strconv.FormatInt(genI(r, 64), 10)
	case 11:
		return "wvu32 " + strconv.FormatUint(genU(r, 32), 10)
	case 12:
		return "wvi32 " + strconv.FormatInt(genI(r, 32), 10)
	case 13, 14:
		return "wstr " + showHex(genBytes(r, genLen(r)))
	case 15:
		n := genLen(r)
		var limit uint64
		switch r.Intn(6) {
		case 0:
			limit = uint64(n) // exactly at the limit
		case 1:
			limit = uint64(n) + 1
		case 2:
			if n > 0 {
				limit = uint64(n) - 1 // refused
			}
		case 3:
			limit = 4294967295
		case 4:
			limit = 0
		default:
			limit = uint64(n + r.Intn(50))
		}
		return fmt.Sprintf("wlstr %d %s", limit, showHex(genBytes(r, n)))
	}
	return "wraw " + showHex(genBytes(r, genLen(r)))
}

// readFor gives the read line that takes a write back (for raw bytes one of the three raw readers).
func readFor(r *rng.R, wline string) string {
	w, ok := parseWrite(strings.Fields(wline))
	if !ok {
		return "ru8"
	}
	if strings.HasPrefix(w.rop, "raw:") {
		if w.size == 0 {
			return r.Pick("read 0", "zreadn 0")
		}
		return r.Pick("read ", "readn ", "zreadn ") + strconv.Itoa(w.size)
	}
	return w.rop
}

var allReads = []string{"rbool", "ru8", "ru16", "ri16", "ru32", "ri32", "ru64", "ri64", "rf64", "rvu64", "rvi64", "rvu32", "rvi32", "rstr"}
var streamReads = []string{"rbool", "ru8", "ru16", "ri16", "ru32", "ri32", "ru64", "ri64", "rf64", "rstr"}

func genRead(r *rng.R, stream bool) string {
	switch r.Intn(10) {
	case 0:
		return "rlstr " + strconv.Itoa(r.PickInt(0, 1, 2, 5, 16, 300, 65536))
	case 1:
		return r.Pick("read ", "readn ", "zreadn ") + strconv.Itoa(r.PickInt(0, 0, 1, 2, 3, 4, 5, 8, 9, 17))
	case 2:
		if r.Chance(1, 3) {
			return r.Pick("readn ", "zreadn ") + strconv.Itoa(-r.Range(1, 5))
		}
	}
	if stream {
		return streamReads[r.Intn(len(streamReads))]
	}
	return allReads[r.Intn(len(allReads))]
}

// encode performs the writes on a real BufferX to obtain input bytes for the decoders (inputs only).
func encode(writes []string) []byte {
	b := bytex.NewBufferX()
	for _, l := range writes {
		if w, ok := parseWrite(strings.Fields(l)); ok {
			func() {
				defer func() { _ = recover() }()
				_ = w.apply(b)
			}()
		}
	}
	return append([]byte{}, b.Bytes()...)
}

// chunkings of a byte string: 1 byte at a time, everything at once, random cuts (with empty chunks now and then)
func chunk(r *rng.R, b []byte, mode int) string {
	if len(b) == 0 {
		return r.Pick(".", "-", "-,-")
	}
	var parts []string
	switch mode {
	case 0:
		for _, x := range b {
			parts = append(parts, showHex([]byte{x}))
		}
	case 1:
		parts = append(parts, showHex(b))
	default:
		for i := 0; i < len(b); {
			if r.Chance(1, 9) {
				parts = append(parts, "-")
			}
			n := r.Range(1, 5)
			if r.Chance(1, 4) {
				n = r.Range(1, len(b))
			}
			if i+n > len(b) {
				n = len(b) - i
			}
			parts = append(parts, showHex(b[i:i+n]))
			i += n
		}
		if r.Chance(1, 9) {
			parts = append(parts, "-")
		}
	}
	return strings.Join(parts, ",")
}

// ---------------------------------------------------------------- case generators

// genNew: a fresh buffer through NewBufferX or NewSizedBufferX(n)
func genNew(r *rng.R) string {
	if r.Chance(1, 3) {
		return "news " + strconv.Itoa(r.PickInt(0, 1, 7, 64, 4096))
	}
	return "new"
}

func genRoundTrip(r *rng.R) corr.Case {
	lines := []string{genNew(r)}
	var queue []string
	n := r.Range(1, 10)
	for i := 0; i < n; i++ {
		w := genWrite(r)
		lines = append(lines, w)
		if wv, _ := parseWrite(strings.Fields(w)); !(wv.op == "wlstr" && uint64(wv.size) > uint64(wv.limit)) {
			queue = append(queue, readFor(r, w))
		}
		// interleave: sometimes read the oldest value back before writing more
		if r.Chance(1, 5) && len(queue) > 0 {
			lines = append(lines, queue[0])
			queue = queue[1:]
		}
	}
	lines = append(lines, queue...)
	lines = append(lines, "len", genRead(r, false), "recheck")
	return corr.Case{Tag: "roundtrip", Lines: lines}
}

func genTrunc(r *rng.R) corr.Case {
	w := genWrite(r)
	full := len(encode([]string{w}))
	rd := readFor(r, w)
	var lines []string
	if full <= 14 || r.Chance(1, 3) {
		lim := full
		if lim > 40 {
			lim = 40
		}
		for k := 0; k <= lim; k++ { // every truncation point
			lines = append(lines, fmt.Sprintf("tload %d %s", k, w), rd, "len")
		}
	} else {
		for i := 0; i < 6; i++ {
			k := r.PickInt(0, 1, 3, 4, 5, full-1, full, full+1, r.Intn(full+1))
			if k < 0 {
				k = 0
			}
			lines = append(lines, fmt.Sprintf("tload %d %s", k, w), rd, "len")
		}
	}
	return corr.Case{Tag: "truncated", Lines: lines}
}

func genGarbage(r *rng.R) corr.Case {
	var b []byte
	switch r.Intn(4) {
	case 0:
		b = genBytes(r, r.Range(0, 40))
	case 1: // a plausible length prefix followed by too few / enough bytes
		n := r.Range(0, 12)
		b = append([]byte{byte(n), 0, 0, 0}, genBytes(r, r.Range(0, 14))...)
	case 2: // varint continuation runs
		b = append(genBytes(r, 0), bytesOf(0x80|byte(r.Intn(128)), r.Range(0, 12))...)
		b = append(b, byte(r.Intn(4)))
		b = append(b, genBytes(r, r.Range(0, 6))...)
	default: // valid encodings, cut anywhere
		var ws []string
		for i := r.Range(1, 5); i > 0; i-- {
			ws = append(ws, genWrite(r))
		}
		b = encode(ws)
		if len(b) > 0 && r.Chance(2, 3) {
			b = b[:r.Intn(len(b)+1)]
		}
	}
	lines := []string{"load " + showHex(b)}
	for i := r.Range(1, 8); i > 0; i-- {
		lines = append(lines, genRead(r, false))
	}
	lines = append(lines, "len", "recheck")
	return corr.Case{Tag: "garbage", Lines: lines}
}

func bytesOf(x byte, n int) []byte {
	b := make([]byte, n)
	for i := range b {
		b[i] = x
	}
	return b
}

func genRewrite(r *rng.R) corr.Case {
	lines := []string{genNew(r)}
	for i := r.Range(0, 3); i > 0; i-- {
		lines = append(lines, genWrite(r))
	}
	lines = append(lines, "wraw "+showHex(genBytes(r, r.Range(0, 12))))
	if r.Chance(1, 3) { // consume a little first: positions count from the unread part
		lines = append(lines, genRead(r, false))
	}
	total := len(encode(lines[1:])) // upper bound of the unread length
	for i := r.Range(1, 4); i > 0; i-- {
		pos := r.Range(0, total+1)
		if r.Chance(1, 12) {
			pos = r.PickInt(-1, total+2, total+9)
		}
		if r.Chance(1, 4) && total > 0 {
			// the payload is a window of the buffer itself (moving a field inside the frame), often overlapping
			from := r.Intn(total + 1)
			to := from + r.Intn(total-from+1)
			lines = append(lines, fmt.Sprintf("rewriteself %d %d %d", pos, from, to))
		} else if r.Chance(1, 3) {
			lines = append(lines, fmt.Sprintf("rewriteu32 %d %d", pos, genU(r, 32)))
		} else {
			n := r.Range(0, 6)
			if r.Chance(1, 3) && total-pos >= 0 {
				n = total - pos // up to the last byte
			}
			lines = append(lines, fmt.Sprintf("rewrite %d %s", pos, showHex(genBytes(r, n))))
		}
	}
	lines = append(lines, "bytes", genRead(r, false), "len")
	return corr.Case{Tag: "rewrite", Lines: lines}
}

// genStream: the same bytes and the same read program under three chunkings (1 byte, whole, random), eager or not.
func genStream(r *rng.R, garbage bool) corr.Case {
	var b []byte
	var reads []string
	if garbage {
		b = genBytes(r, r.Range(0, 30))
		if r.Bool() {
			b = append([]byte{byte(r.Intn(10)), 0, 0, 0}, b...)
		}
		for i := r.Range(1, 7); i > 0; i-- {
			reads = append(reads, genRead(r, true))
		}
	} else {
		var ws []string
		for i := r.Range(1, 7); i > 0; i-- {
			w := genWrite(r)
			if strings.HasPrefix(w, "wv") { // ReaderX has no varint readers
				w = "wu32 " + strconv.FormatUint(genU(r, 32), 10)
			}
			ws = append(ws, w)
			if wv, _ := parseWrite(strings.Fields(w)); !(wv.op == "wlstr" && uint64(wv.size) > uint64(wv.limit)) {
				reads = append(reads, readFor(r, w))
			}
		}
		b = encode(ws)
		if len(b) > 0 && r.Chance(1, 4) {
			b = b[:r.Intn(len(b)+1)]
		}
		reads = append(reads, genRead(r, true))
	}
	var lines []string
	for mode := 0; mode < 3; mode++ {
		lines = append(lines, "sload "+r.Pick("0", "0", "1")+" "+chunk(r, b, mode))
		lines = append(lines, reads...)
		lines = append(lines, "recheck")
	}
	tag := "stream"
	if garbage {
		tag = "stream-garbage"
	}
	return corr.Case{Tag: tag, Lines: lines}
}

// genRewriteBig: ReWrite / ReWriteU32 on buffers of 64 KiB … 256 KiB: the length-placeholder idiom (u32 at the front
// patched after a big body), payloads at the far end, big payloads, and payloads that alias the buffer.
func genRewriteBig(r *rng.R) corr.Case {
	n := r.PickInt(65532, 65533, 65536, 65537, 70000, 131072, 200000, 262144)
	lines := []string{genNew(r), "wu32 0", fmt.Sprintf("wraw p%d:%d", r.Intn(1000), n)}
	total := n + 4
	lines = append(lines, fmt.Sprintf("rewriteu32 0 %d", n))
	for i := r.Range(1, 4); i > 0; i-- {
		switch r.Intn(5) {
		case 0: // near the end
			k := r.Range(0, 8)
			lines = append(lines, fmt.Sprintf("rewrite %d %s", total-k-r.Intn(3), showRawHex(genBytes(r, k))))
		case 1: // a big payload
			k := r.PickInt(4096, 65536, 65537, total/2)
			if k > total-8 {
				k = total - 8
			}
			lines = append(lines, fmt.Sprintf("rewrite %d p%d:%d", r.Intn(total-k+1), r.Intn(1000), k))
		case 2: // aliasing, overlapping
			k := r.PickInt(6, 100, 4096, 65537)
			if k > total-8 {
				k = total - 8
			}
			from := r.Intn(total - k)
			lines = append(lines, fmt.Sprintf("rewriteself %d %d %d", from+r.Range(1, 5), from, from+k))
		case 3: // aliasing, far apart
			k := r.PickInt(4, 1000, 30000)
			lines = append(lines, fmt.Sprintf("rewriteself %d %d %d", total-k, 0, k))
		default:
			lines = append(lines, fmt.Sprintf("rewriteu32 %d %d", r.PickInt(0, 1, 65532, 65536, total-4), genU(r, 32)))
		}
	}
	lines = append(lines, "bytes", "ru32", fmt.Sprintf("readn %d", n), "len")
	if r.Chance(1, 2) {
		lines = append(lines, "reset", "len", "wu16 513", "ru16", "len", "ru8")
	}
	return corr.Case{Tag: "rewrite-big", Lines: lines}
}

// genBig: values of 4 KiB … 256 KiB (1 MiB in thorough/search) as pattern tokens, through the buffer and through
// streams chunked 1, 2, 4096, 65536 bytes or randomly; also cut just before the end.
func genBig(r *rng.R, tier string) corr.Case {
	sizes := []int{4095, 4096, 4097, 5000, 65535, 65536, 65537, 70000, 200000, 262144}
	if tier != "quick" {
		sizes = append(sizes, 1048576)
	}
	n := sizes[r.Intn(len(sizes))]
	pat := fmt.Sprintf("p%d:%d", r.Intn(1000), n)
	var w string
	switch r.Intn(4) {
	case 0:
		w = "wraw " + pat
	case 1:
		w = fmt.Sprintf("wlstr %d %s", r.PickInt(n, n+1, 4294967295), pat)
	default:
		w = "wstr " + pat
	}
	lines := []string{genNew(r)}
	var reads []string
	add := func(w string) {
		lines = append(lines, w)
		reads = append(reads, readFor(r, w))
	}
	if r.Bool() {
		add("wu32 " + strconv.FormatUint(genU(r, 32), 10))
	}
	add(w)
	add("wstr " + showRawHex(genBytes(r, r.Range(0, 5))))
	if r.Chance(1, 3) {
		add(fmt.Sprintf("wstr p%d:%d", r.Intn(1000), r.PickInt(4096, 5000, 70000)))
	}
	switch r.Intn(5) {
	case 0, 1: // buffer
		if r.Chance(1, 2) {
			lines = append(lines, reads...)
			lines = append(lines, "len", "ru8")
		}
		// the buffer has grown: Reset and reuse it
		lines = append(lines, "reset", "len", "bytes", "wu32 67305985", "wstr 616263", "ru32", "rstr", "len", "ru8")
		return corr.Case{Tag: "big-buffer", Lines: lines}
	case 2: // cut points around the end of the big value
		var out []string
		full := len(encode([]string{w}))
		for _, k := range []int{4, 4095, 4096, 65536, full - 1, full} {
			if k <= full {
				out = append(out, fmt.Sprintf("tload %d %s", k, w), readFor(r, w), "len")
			}
		}
		return corr.Case{Tag: "big-truncated", Lines: out}
	}
	// stream: fine chunkings only for the sizes the oracle's recursion depth affords
	var ch string
	switch {
	case n <= 5000 && r.Chance(1, 2):
		ch = "1"
	case n <= 70000 && r.Chance(1, 3):
		ch = "2"
	default:
		ch = r.Pick("4096", "65536", "4095", "r"+strconv.Itoa(r.Intn(100000)), "r"+strconv.Itoa(r.Intn(100000)), "1048576")
	}
	lines = append(lines, "tostream "+r.Pick("0", "0", "1")+" "+ch)
	lines = append(lines, reads...)
	lines = append(lines, "ru8")
	return corr.Case{Tag: "big-stream", Lines: lines}
}

// genRetain: several raw / string fields in a row (sizes on both sides of 64 and 4096 bytes), read through ReadN /
// ZReadN / Read / ReadString from a buffer or from a stream; every slice handed out is looked at again at the end
// (`recheck`): a value that was read stays what it was, whatever is read afterwards.
func genRetain(r *rng.R) corr.Case {
	lines := []string{genNew(r)}
	var reads []string
	n := r.Range(2, 6)
	for i := 0; i < n; i++ {
		size := r.PickInt(0, 1, 2, 5, 16, 63, 64, 65, 100, 300, 1000, 4095, 4096, 4097, 5000, 9000)
		var arg string
		if size > 40 {
			arg = fmt.Sprintf("p%d:%d", r.Intn(1000), size)
		} else {
			arg = showRawHex(genBytes(r, size))
		}
		if r.Chance(1, 4) {
			lines = append(lines, "wstr "+arg)
			reads = append(reads, "rstr")
			continue
		}
		lines = append(lines, "wraw "+arg)
		switch {
		case size == 0:
			reads = append(reads, r.Pick("zreadn 0", "read 0"))
		case r.Chance(2, 3):
			reads = append(reads, "zreadn "+strconv.Itoa(size))
		default:
			reads = append(reads, r.Pick("readn ", "read ")+strconv.Itoa(size))
		}
	}
	if r.Chance(2, 3) {
		lines = append(lines, "tostream "+r.Pick("0", "0", "1")+" "+r.Pick("1", "3", "64", "4096", "1048576", "r"+strconv.Itoa(r.Intn(100000))))
	}
	for i, rd := range reads {
		lines = append(lines, rd)
		if i > 0 && r.Chance(1, 4) {
			lines = append(lines, "recheck")
		}
	}
	lines = append(lines, "recheck", "ru8", "recheck")
	return corr.Case{Tag: "retain", Lines: lines}
}

// genVarintMalformed: overflowing / truncated / over-long varints through all four ReadVar* of BufferX (ReaderX has no
// varint readers): 10+ continuation bytes (0xff…, 0x80…), nine + a tenth byte of 0x02…0x7f, nine + 0x00/0x01 (legal),
// fewer than needed; followed by more bytes so that what a faulty read leaves behind shows too.
func genVarintMalformed(r *rng.R) corr.Case {
	var lines []string
	for seg := r.Range(1, 3); seg > 0; seg-- {
		k := r.PickInt(9, 9, 10, 10, 11, 12, 20, r.Range(0, 8))
		var b []byte
		for i := 0; i < k; i++ {
			b = append(b, byte(r.PickInt(0xff, 0xff, 0x80, 0x81, 0x80|r.Intn(128))))
		}
		if r.Chance(3, 4) { // a final byte: legal end, tenth byte too big, or none (truncated)
			b = append(b, byte(r.PickInt(0, 1, 2, 3, 0x7f, r.Intn(128))))
		}
		b = append(b, genBytes(r, r.Range(0, 4))...)
		lines = append(lines, "load "+showRawHex(b))
		for i := r.Range(1, 3); i > 0; i-- {
			lines = append(lines, r.Pick("rvu64", "rvi64", "rvu32", "rvi32"))
		}
		lines = append(lines, "len", "ru8")
	}
	return corr.Case{Tag: "varint-malformed", Lines: lines}
}

// genSourceFail: the encoding of a few values behind a source that FAILS (an I/O error, not EOF) after k bytes, for
// every k inside the encoding, under several chunkings; the reads must report an error from the failure point on.
func genSourceFail(r *rng.R) corr.Case {
	var ws, reads []string
	for i := r.Range(1, 3); i > 0; i-- {
		w := genWrite(r)
		if strings.HasPrefix(w, "wv") {
			w = "wu64 " + strconv.FormatUint(genU(r, 64), 10)
		}
		if wv, _ := parseWrite(strings.Fields(w)); wv.op == "wlstr" && uint64(wv.size) > uint64(wv.limit) {
			continue
		}
		ws = append(ws, w)
		reads = append(reads, readFor(r, w))
	}
	reads = append(reads, genRead(r, true))
	b := encode(ws)
	if len(b) > 40 {
		b = b[:40]
	}
	var lines []string
	for k := 0; k <= len(b); k++ {
		lines = append(lines, "sloadf "+r.Pick("0", "0", "1")+" "+chunk(r, b[:k], r.Intn(3)))
		lines = append(lines, reads...)
	}
	return corr.Case{Tag: "source-fail", Lines: lines}
}

// genIncremental: a source that is fed over time (a connection, a pipe, a bytes.Buffer still being written): read until
// the reader runs dry (clean EOF at a value boundary, or in the middle of a value), more bytes arrive, read again.
func genIncremental(r *rng.R) corr.Case {
	var ws, reads []string
	for i := r.Range(2, 7); i > 0; i-- {
		w := genWrite(r)
		if strings.HasPrefix(w, "wv") {
			w = "wu16 " + strconv.FormatUint(genU(r, 16), 10)
		}
		if wv, _ := parseWrite(strings.Fields(w)); wv.op == "wlstr" && uint64(wv.size) > uint64(wv.limit) {
			continue
		}
		ws = append(ws, w)
		reads = append(reads, readFor(r, w))
	}
	if len(ws) == 0 {
		ws, reads = []string{"wu8 7"}, []string{"ru8"}
	}
	// cut the encoding into 2..4 batches: at value boundaries (clean EOF) or anywhere
	var bounds []int
	total := 0
	for _, w := range ws {
		total += len(encode([]string{w}))
		bounds = append(bounds, total)
	}
	b := encode(ws)
	var cuts []int
	for i := r.Range(1, 3); i > 0; i-- {
		if r.Chance(2, 3) {
			cuts = append(cuts, bounds[r.Intn(len(bounds))])
		} else {
			cuts = append(cuts, r.Intn(len(b)+1))
		}
	}
	cuts = append(cuts, len(b))
	sortInts(cuts)
	lines := []string{"sload " + r.Pick("0", "0", "1") + " " + chunk(r, b[:cuts[0]], r.Intn(3))}
	prev := cuts[0]
	ri := 0
	for bi := 0; ; bi++ {
		// read what should be there, and once more: the reader runs dry
		for ri < len(reads) && (ri >= len(bounds) || bounds[ri] <= prev) {
			lines = append(lines, reads[ri])
			ri++
		}
		if ri < len(reads) {
			lines = append(lines, reads[ri]) // runs into EOF / a short read
			ri++
		} else {
			lines = append(lines, genRead(r, true))
		}
		if bi+1 >= len(cuts) {
			break
		}
		lines = append(lines, "feed "+chunk(r, b[prev:cuts[bi+1]], r.Intn(3)))
		prev = cuts[bi+1]
	}
	lines = append(lines, "feed "+showRawHex([]byte{7, 1, 2}), "ru8", "ru16", "ru8", "recheck")
	return corr.Case{Tag: "incremental", Lines: lines}
}

func sortInts(a []int) {
	for i := 1; i < len(a); i++ {
		for j := i; j > 0 && a[j] < a[j-1]; j-- {
			a[j], a[j-1] = a[j-1], a[j]
		}
	}
}

var junkTokens = []string{"", "x", "-", "--1", "-0", "00", "0x10", "1e3", "256", "65536", "4294967296", "18446744073709551616",
	"99999999999999999999", "999999999999999999999", "-9223372036854775809", "-32769", "abc", "ABCD", "0g", "123", "+1", "1048577", "-1048577", ".", ","}

func genMalformed(r *rng.R) corr.Case {
	lines := []string{r.Pick("new", "load 0102030405060708", "sload 0 0102,0304", "tload 2 wu32 7")}
	ops := []string{"wbool", "wu8", "wu16", "wi16", "wu32", "wi32", "wu64", "wi64", "wf64", "wvu64", "wvi64", "wvu32", "wvi32", "wstr", "wlstr", "wraw",
		"rbool", "ru8", "ru16", "rstr", "rlstr", "read", "readn", "zreadn", "rvu64", "rewrite", "rewriteu32", "bytes", "len", "reset", "load", "sload", "tload", "new", "frob", "w", "r"}
	for i := r.Range(2, 8); i > 0; i-- {
		var f []string
		f = append(f, ops[r.Intn(len(ops))])
		for j := r.Intn(4); j > 0; j-- {
			if r.Chance(1, 3) {
				f = append(f, strconv.Itoa(r.Intn(70000)))
			} else {
				f = append(f, junkTokens[r.Intn(len(junkTokens))])
			}
		}
		l := strings.TrimSpace(strings.Join(f, " "))
		if l == "" {
			l = "frob"
		}
		lines = append(lines, l)
		if r.Chance(1, 3) { // a well-formed op in between: the state must have survived the junk
			lines = append(lines, r.Pick("len", "ru8", "wu8 7", "bytes", "ru16"))
		}
	}
	return corr.Case{Tag: "malformed", Lines: lines}
}

// ---------------------------------------------------------------- fixed cases

func fixedCases() []corr.Case {
	c := func(tag string, lines ...string) corr.Case { return corr.Case{Tag: tag, Lines: lines} }
	out := []corr.Case{
		// witnesses of the two defects of the unrepaired tree (F09, F10)
		c("witness-F09", "sload 0 01,00,00,00", "ru32"),
		c("witness-F09-eager", "sload 1 01000000", "ru32"),
		c("witness-F10", "sload 0 00000000", "rstr"),
		c("witness-F10-limit", "sload 0 00000000ff", "rlstr 5", "ru8"),
		// boundaries named in the property
		c("fixed", "new", "wstr -", "wlstr 0 -", "wraw -", "rstr", "rlstr 0", "read 0", "len", "ru8"),
		c("fixed", "new", "wlstr 3 616263", "wlstr 2 616263", "rlstr 3", "len"),
		c("fixed", "load 03000000616263", "rlstr 2", "len"),
		c("fixed", "load 03000000616263", "rlstr 3", "len"),
		c("fixed", "new", "wf64 7ff8000000000001", "wf64 7ff0000000000001", "wf64 fff8000000000000", "rf64", "rf64", "rf64", "len"),
		c("fixed", "new", "wi16 -32768", "wi32 -2147483648", "wi64 -9223372036854775808", "wvi64 -9223372036854775808", "wvi32 -2147483648", "bytes", "ri16", "ri32", "ri64", "rvi64", "rvi32", "len"),
		c("fixed", "new", "wu16 65535", "wu32 4294967295", "wu64 18446744073709551615", "wvu64 18446744073709551615", "wvu32 4294967295", "bytes", "ru16", "ru32", "ru64", "rvu64", "rvu32", "len"),
		c("fixed", "new", "wi16 258", "bytes"),
		c("fixed", "load ffffffffffffffffff01", "rvu64", "len"),
		c("fixed", "load ffffffffffffffffff02", "rvu64", "len"),
		c("fixed", "load ffffffffffffffffffff01", "rvu64", "len"),
		c("fixed", "load 80808080", "rvu64", "len"),
		c("fixed", "load -", "rvu64", "ru8", "ru32", "rstr", "read 0", "read 1", "readn 0", "zreadn 0", "zreadn 1", "readn -1", "zreadn -1"),
		c("fixed", "load ffffffffff01", "rvu32", "len"),
		c("fixed", "load 0102", "ru32", "len", "ru8"),
		c("fixed", "load 05000000aabb", "rstr", "len"),
		c("fixed", "new", "wraw 0102030405", "rewrite 1 ffee", "rewrite 3 aabb", "rewrite 4 ccdd", "rewrite 5 -", "rewrite 5 01", "rewrite 6 -", "rewrite -1 00", "rewriteu32 1 4278255360", "rewriteu32 2 1", "bytes"),
		c("fixed", "new", "wraw 0102030405", "ru16", "rewrite 0 ff", "bytes", "rewrite 3 ee", "rewrite 4 ee"),
		c("fixed", "sload 0 .", "ru8", "read 0", "zreadn 0", "readn 0", "rstr"),
		c("fixed", "sload 0 0500,0000,6162,636465,ff", "rstr", "ru8", "ru8"),
		c("fixed", "sload 1 0500,0000,6162,636465,ff", "rstr", "ru8", "ru8"),
		c("fixed", "sload 0 05000000616263", "rstr", "ru8"),
		c("fixed", "sload 0 -,01,-,02,-", "ru16", "ru8"),
		c("fixed", "sload 0 ffffffff00", "rstr", "rlstr 7", "ru8"),
		c("fixed", "sload 0 01000001", "rstr"),
	}
	out = append(out,
		// constructors: a fresh buffer is empty, whatever its capacity
		c("constructors", "news 8", "len", "bytes", "wu8 7", "ru8", "len", "ru8"),
		c("constructors", "news 0", "wstr 6162", "rstr", "len"),
		c("constructors", "news 4096", "wu32 1", "wu16 2", "ru32", "ru16", "len"),
		c("constructors", "news 1", "wu8 7", "tostream 0 1", "ru8", "ru8"),
		c("constructors", "new", "len", "bytes", "wu8 7", "ru8", "len"),
		c("constructors", "load 07", "ru8", "len", "ru8"),
		c("constructors", "load 0700", "ru8", "ru8", "len"),
		// sizes: 4 KiB … 256 KiB through the buffer and through streams
		c("big-fixed", "new", "wstr p1:5000", "wu8 9", "rstr", "ru8", "len"),
		c("big-fixed", "news 64", "wstr p2:65535", "wstr p3:65536", "wraw p4:70000", "rstr", "rstr", "readn 70000", "len"),
		c("big-fixed", "new", "wstr p5:200000", "wu8 9", "tostream 0 4096", "rstr", "ru8", "ru8"),
		c("big-fixed", "new", "wstr p6:70000", "wu8 9", "tostream 0 65536", "rstr", "ru8"),
		c("big-fixed", "new", "wstr p7:70000", "wu8 9", "tostream 1 2", "rstr", "ru8"),
		c("big-fixed", "new", "wstr p8:5000", "wu8 9", "tostream 0 1", "rstr", "ru8"),
		c("big-fixed", "new", "wlstr 65536 p9:65536", "wu8 9", "tostream 0 r12345", "rlstr 65536", "ru8"),
		c("big-fixed", "new", "wraw p10:200000", "tostream 1 r7", "readn 200000", "ru8"),
		c("big-fixed", "tload 65539 wstr p11:65536", "rstr", "len", "tload 65540 wstr p11:65536", "rstr", "len"),
		// Reset after the buffer has grown (past 64 KiB, past 1 MiB) and reuse; Reset of small / fresh / drained buffers
		c("reset-fixed", "new", "wraw p1:70000", "reset", "len", "bytes", "wu8 7", "ru8", "len", "ru8"),
		c("reset-fixed", "news 4096", "wstr p2:200000", "rstr", "reset", "len", "wu32 1", "wstr 6162", "ru32", "rstr", "len"),
		c("reset-fixed", "new", "wraw p3:65536", "readn 65536", "reset", "len", "wraw p4:1048576", "reset", "len", "wu16 513", "ru16", "len"),
		c("reset-fixed", "new", "reset", "len", "wu8 1", "reset", "len", "ru8", "news 0", "reset", "wu8 2", "ru8", "len"),
		// incremental sources: the reader runs dry (clean EOF at a value boundary / inside a value), more bytes arrive
		c("incremental-fixed", "sload 0 01000000", "ru32", "ru32", "feed 02000000", "ru32", "ru8", "feed 07", "ru8"),
		c("incremental-fixed", "sload 0 .", "ru8", "feed 07", "ru8", "ru8", "feed -,08", "ru8"),
		c("incremental-fixed", "sload 1 0300", "rstr", "feed 0000616263ff", "rstr", "ru16", "feed 0000", "ru16", "ru8"),
		c("incremental-fixed", "sload 0 03000000", "rstr", "feed 616263", "rstr", "zreadn 3", "feed 00000000", "rstr", "recheck"),
		c("incremental-fixed", "new", "wu8 1", "tostream 0 1", "ru8", "ru8", "feed 0200", "ru16", "rbool"),
		// malformed varints through every ReadVar* of BufferX: never a value
		c("varint-malformed-fixed", "load ffffffffffffffffffff07", "rvu64", "len", "load ffffffffffffffffffff07", "rvi64", "len",
			"load ffffffffffffffffffff07", "rvu32", "len", "load ffffffffffffffffffff07", "rvi32", "len"),
		c("varint-malformed-fixed", "load 80808080808080808080808001", "rvu64", "len", "ru8"),
		c("varint-malformed-fixed", "load ffffffffffffffffff0207", "rvu64", "len", "load ffffffffffffffffff7f07", "rvi64", "len",
			"load ffffffffffffffffff0207", "rvu32", "len", "load ffffffffffffffffff0207", "rvi32", "len"),
		c("varint-malformed-fixed", "load ffffffffffffffffff0107", "rvu64", "ru8", "load ffffffffffffffffff", "rvu64", "load ff", "rvi32"),
		// a source that fails with an I/O error after k bytes, k = every position inside a u32 / a string
		c("source-fail-fixed", "sloadf 0 .", "ru32", "sloadf 0 01", "ru32", "sloadf 0 01,00", "ru32", "sloadf 0 0100,00", "ru32",
			"sloadf 0 01000000", "ru32", "ru8", "sloadf 1 01000000", "ru32", "ru8"),
		c("source-fail-fixed", "sloadf 0 03", "rstr", "sloadf 0 03000000", "rstr", "sloadf 0 0300000061", "rstr", "sloadf 0 030000006162", "rstr",
			"sloadf 0 03000000616263", "rstr", "rstr", "sloadf 0 00000000", "rstr", "rbool", "read 0", "zreadn 0", "readn 2"),
		c("source-fail-fixed", "sloadf 0 0102030405060708,09", "ru64", "ru16", "sloadf 1 01020304050607", "ru64", "sloadf 0 01", "rbool", "rbool", "ru8"),
		// the package's sentinel errors: non-nil, distinct, with their texts
		c("sentinels", "sentinels", "load 0102", "ru32", "sentinels"),
		// ReWrite on big buffers, and with a payload that aliases the buffer's own storage
		c("rewrite-alias-fixed", "new", "wraw 0102030405060708", "rewriteself 2 0 6", "bytes"),
		c("rewrite-alias-fixed", "new", "wraw 0102030405060708", "rewriteself 0 2 8", "bytes", "rewriteself 7 0 6", "rewriteself 8 0 0", "rewriteself 9 0 0", "rewriteself 2 0 9"),
		c("rewrite-alias-fixed", "new", "wraw 0102030405060708", "ru16", "rewriteself 1 0 5", "bytes", "ru32"),
		c("rewrite-big-fixed", "new", "wu32 0", "wraw p1:70000", "rewriteu32 0 70000", "ru32", "bytes", "len"),
		c("rewrite-big-fixed", "new", "wraw p2:70000", "rewrite 69990 0102030405060708090a", "rewrite 0 p3:66000", "rewrite 65530 ffee", "bytes"),
		c("rewrite-big-fixed", "new", "wraw p4:200000", "rewriteself 3 0 70000", "bytes", "rewriteself 100000 0 100000", "bytes"),
		// single values above 1 MiB (the oracle answers by theorem `bigrt_answer`, without materialising them)
		c("huge-value", "bigrt str 1 2097152 buf"),
		c("huge-value", "bigrt str 2 2097153 s65536"),
		c("huge-value", "bigrt raw 3 1048577 s4096", "bigrt lstr 4 1048577 buf"),
		// values stay what they were: every slice handed out by a raw reader is looked at again after later reads
		c("retain-fixed", "sload 0 0102030405060708", "zreadn 3", "zreadn 3", "recheck", "ru16", "recheck"),
		c("retain-fixed", "sload 0 0102030405060708", "zreadn 2", "rstr", "recheck"),
		c("retain-fixed", "sload 0 01020300000000ff", "zreadn 2", "rlstr 4", "recheck", "readn 1", "read 1", "recheck"),
		c("retain-fixed", "new", "wraw p1:100", "wraw p2:100", "wraw p3:4096", "wraw p4:4097", "wraw p5:4097", "tostream 0 64",
			"zreadn 100", "zreadn 100", "zreadn 4096", "zreadn 4097", "zreadn 4097", "recheck"),
		c("retain-fixed", "load 0102030405060708", "zreadn 3", "zreadn 3", "readn 1", "recheck", "ru8", "recheck"),
		c("retain-fixed", "new", "wraw 010203", "zreadn 3", "recheck", "wraw 040506", "recheck", "zreadn 3", "recheck", "reset", "recheck"),
		// length fields of 2^24 … 2^32-1 on a stream: executed in a memory-capped child process (T-observable)
		c("huge-prefix-probe", "sload 0 ffffffff010203", "xrstr"),
		c("huge-prefix-probe", "sload 0 ffffff7f010203", "xrstr"),
		c("huge-prefix-probe", "sload 0 00000002010203", "xrstr"),
		c("huge-prefix-probe", "sload 0 00000080,0102", "xrlstr 4294967295"),
		c("huge-prefix-probe", "sload 0 ffffffff0102", "xrlstr 65536"),
		c("huge-prefix-probe", "sload 0 03000000616263ff", "xrstr"),
	)
	// every truncation point of one value of every type
	for _, w := range []string{"wbool 1", "wu8 200", "wu16 513", "wi16 -2", "wu32 67305985", "wi32 -3", "wu64 578437695752307201", "wi64 -4",
		"wf64 7ff8000000000001", "wvu64 18446744073709551615", "wvi64 -9223372036854775808", "wvu32 300", "wvi32 -129", "wstr 616263", "wstr -",
		"wlstr 3 616263", "wraw 0102030405"} {
		wv, _ := parseWrite(strings.Fields(w))
		rd := wv.rop
		if strings.HasPrefix(rd, "raw:") {
			rd = "readn " + strconv.Itoa(wv.size)
		}
		var lines []string
		for k := 0; k <= 13; k++ {
			lines = append(lines, fmt.Sprintf("tload %d %s", k, w), rd, "len")
		}
		out = append(out, corr.Case{Tag: "truncated-fixed", Lines: lines})
	}
	return out
}

// ---------------------------------------------------------------- spec

func spec() corr.Spec {
	return corr.Spec{
		Property: "C10",
		Fixed:    fixedCases,
		Count: func(tier string) int {
			switch tier {
			case "quick":
				return 20000
			case "thorough":
				return 200000
			}
			return 40000 // search: same classes, other seeds' worth of cases; bounded so that a run through S7 stays < 2 min
		},
		Gen: func(r *rng.R, tier string, i int) corr.Case {
			// big values are costly for the oracle (it runs on lists): 1 in 400 cases, 1 in 150 in thorough
			if (tier != "thorough" && i%400 == 399) || (tier == "thorough" && i%150 == 149) {
				return genBig(r, tier)
			}
			if (tier != "thorough" && i%400 == 199) || (tier == "thorough" && i%150 == 74) {
				return genRewriteBig(r)
			}
			if tier != "quick" {
				// single values far above 1 MiB: 16 MiB+1 and 64 MiB+1 once per run, a few of 1..4 MiB
				switch {
				case i == 5:
					return corr.Case{Tag: "huge-value", Lines: []string{"bigrt str 5 16777217 buf"}}
				case i == 6:
					return corr.Case{Tag: "huge-value", Lines: []string{"bigrt str 7 67108865 s1048576"}}
				case i == 7 && tier == "thorough":
					return corr.Case{Tag: "huge-value", Lines: []string{"bigrt raw 8 67108865 buf"}}
				case i == 8 && tier == "thorough":
					return corr.Case{Tag: "huge-value", Lines: []string{"bigrt raw 6 16777217 s65536"}}
				case i%5000 == 17:
					return corr.Case{Tag: "huge-value", Lines: []string{fmt.Sprintf("bigrt %s %d %d %s", r.Pick("str", "raw", "lstr"), r.Intn(1000),
						r.PickInt(1048577, 2097152, 3000000, 4194305), r.Pick("buf", "s4096", "s65536", "s1048576"))}}
				}
			}
			if i%20 == 13 {
				return genRetain(r)
			}
			if i%40 == 17 {
				return genIncremental(r)
			}
			if i%40 == 7 {
				return genVarintMalformed(r)
			}
			if i%40 == 27 {
				return genSourceFail(r)
			}
			switch i % 10 {
			case 0, 1, 2:
				return genRoundTrip(r)
			case 3:
				return genTrunc(r)
			case 4:
				return genGarbage(r)
			case 5:
				return genRewrite(r)
			case 6, 7:
				return genStream(r, false)
			case 8:
				return genStream(r, true)
			}
			if r.Chance(1, 2) {
				return genMalformed(r)
			}
			return genGarbage(r)
		},
		Run:   runCase,
		TOnly: func(line string) bool { return strings.HasPrefix(line, "xr") },
		NonTrivial: func(c corr.Case, r corr.Result) bool {
			for _, o := range r.Outs {
				if strings.HasPrefix(o, "v=") {
					return true
				}
			}
			return false
		},
		Rule: "scripts over the real bytex.BufferX / bytex.ReaderX: (roundtrip) 1..10 boundary-biased typed writes then the same typed reads, FIFO-interleaved; " +
			"(truncated) every truncation point of an encoding; (garbage) arbitrary / cut / varint-continuation bytes under random typed reads; " +
			"(rewrite) ReWrite/ReWriteU32 at in-range, edge and out-of-range positions; (stream) the same bytes and read program under 1-byte, whole and random chunkings, " +
			"with and without EOF-with-data; (malformed) ill-formed lines; (constructors) buffers made by NewBufferX, NewSizedBufferX(0|1|7|64|4096), NewReadableBufferX, readers by NewReaderX; " +
			"(big) strings / raw bytes of 4095..262144 bytes (1 MiB beyond quick) through the buffer, cut near the end, and through streams chunked 1, 2, 4095, 4096, 65536, 1 MiB or randomly; " +
			"(rewrite-big / rewrite-alias) ReWrite and ReWriteU32 on buffers of 64..256 KiB incl. the length-placeholder idiom, payloads > 64 KiB and payloads that alias the buffer (`rewriteself`); " +
			"(huge-value) single values of 1 MiB+1 .. 2 MiB in quick, 16 MiB+1 and 64 MiB+1 in thorough/search (`bigrt`), buffer and stream; (sentinels) the error variables are non-nil, distinct, with their texts; " +
			"(varint-malformed) 0..20 continuation bytes (0xff.., 0x80..) with legal / too big / missing last byte through rvu64, rvi64, rvu32, rvi32; " +
			"(source-fail) `sloadf`: the source fails with an I/O error after k bytes, k = every position inside the encoding of 1..3 values, several chunkings; " +
			"(incremental) the source is fed over time (`feed`): read until the reader runs dry at a value boundary or inside a value, more bytes arrive, read again, 2..4 batches; " +
			"(reset) Reset after the buffer has grown past 64 KiB / 1 MiB, then reuse; " +
			"(retain) several raw / string fields in a row (0..9000 bytes, around 64 and 4096) from a buffer or a stream, every slice handed out looked at again by `recheck` and at the end of the script; " +
			"(huge-prefix-probe, T) length fields 2^25..2^32-1 read by the real ReaderX in a memory-capped child process. Non-trivial = at least one read returned a value; distinct = distinct script text",
		Assumptions: []string{
			"encoding/binary (LittleEndian put/get, PutUvarint/ReadUvarint/PutVarint/ReadVarint), bytes.Buffer (Read/Next/ReadByte/Write/Bytes) and io.ReadFull behave as modelled (validated by the correspondence runs, not proved)",
			"math.Float64bits / math.Float64frombits are mutually inverse bijections that keep NaN payloads (float64 values are identified with their 64-bit pattern)",
			"strings longer than 2^32-1 bytes are outside the correspondence (the model keeps the uint32 truncation of the length; the round-trip theorem assumes length < 2^32)",
			"an io.Reader is modelled as a finite list of chunks: each Read delivers at most the first chunk, (0, nil) for an empty chunk, io.EOF after the last one or (eager) together with it; a source may also end with an I/O error of its own instead of io.EOF (`sloadf`, model field Src.fail); readers that return (0, nil) forever (io.ReadFull then spins) or fail and later recover are outside the quantifier of the stream theorems and of the correspondence",
			"generated stream scripts answer `guard:huge` without executing a ReaderX string read whose pending length field exceeds 2^24 (ReadN would make([]byte, n) for it); the range 2^24..2^32-1 is exercised only by the fixed `xrstr`/`xrlstr` probes, which run the real read in a child process capped at 4 GiB of address space (observed: up to 2 GiB the read answers as the model says after allocating that much; 4 GiB-1 kills the process with the runtime's fatal out-of-memory — an abort, not an error value; uncapped it stalls for about 90 s here)",
			"Go's int is 64 bits wide (regenerated as Nv.Gen.C10.intBits from strconv.IntSize): on a 32-bit int a length field >= 2^31 would make buffer.Next panic (Lean witness witness_int32_panics)",
			"values up to 1 MiB are exercised (pattern tokens p<seed>:<n>, results printed as length + digest); fine chunkings (1 and 2 bytes) only up to 5 000 / 70 000 bytes because the oracle's chunk loop recurses per chunk",
		},
		Trusted: []string{
			"go/cmd/c10 chunkReader (the fragmenting io.Reader of the harness) and the `guard:huge` rule that skips stream string reads whose pending length field exceeds 2^24",
		},
	}
}
