#!/usr/bin/env python3
"""Rewrites the generated blocks of DESIGN.md (between <!-- GEN:name --> and <!-- /GEN:name -->) from the current
evidence, known_findings.json, MANIFEST.hooks and seeded results."""
import json, os, re, subprocess
V = os.path.dirname(os.path.dirname(os.path.abspath(__file__)))
def sh(*a): return subprocess.run(a, cwd=V, capture_output=True, text=True).stdout
blocks = {
 'table': sh('python3', 'meta/design_table.py'),
 'seeded': sh('python3', 'meta/seeded_table.py'),
 'negctl': sh('python3', 'meta/negctl_table.py'),
}
kf = json.load(open(os.path.join(V, 'known_findings.json')))
lines = ["| property | commit | what failed (replay) |", "|---|---|---|"]
for f in kf['fixed']:
    m = re.match(r'fixed: property=(C\d+) (\w+) (.*)', f)
    if m: lines.append("| %s | %s | %s |" % (m.group(1), m.group(2), m.group(3).replace('|', '/')))
blocks['fixed'] = "\n".join(lines) + "\n"
lines = ["| property | key | what |", "|---|---|---|"]
for f in kf['findings']:
    lines.append("| %s | `%s` | %s |" % (f['property'], f['key'], f['what'].replace('|', '/')))
blocks['findings'] = "\n".join(lines) + "\n"
blocks['hooks'] = "```\n" + open(os.path.join(V, 'MANIFEST.hooks')).read() + "```\n"
p = os.path.join(V, 'DESIGN.md')
s = open(p).read()
for name, body in blocks.items():
    s, n = re.subn(r'(<!-- GEN:%s -->\n).*?(<!-- /GEN:%s -->)' % (name, name), lambda m: m.group(1) + body + m.group(2), s, flags=re.S)
    if n == 0:
        print("marker missing:", name)
open(p, 'w').write(s)
print("DESIGN.md updated")
