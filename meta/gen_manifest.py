#!/usr/bin/env python3
"""Regenerates MANIFEST.json from meta/checks.json (per-property texts) + properties.jsonl + MANIFEST.hooks."""
import json, os, re
V = os.path.dirname(os.path.dirname(os.path.abspath(__file__)))
props = [json.loads(l) for l in open(os.path.join(V, 'properties.jsonl'))]
checks_meta = json.load(open(os.path.join(V, 'meta', 'checks.json')))
hooks_commits = [l.split()[0] for l in open(os.path.join(V, 'MANIFEST.hooks')) if l.strip() and not l.startswith('#')]
checks, na = [], []
for p in props:
    i = p['id']
    m = checks_meta.get(i)
    if not m or m.get('not_applicable'):
        na.append({"property_id": i, "reason": (m or {}).get('not_applicable') or "check not built yet in this session (work in progress; see DESIGN.md section 9 build order)"})
        continue
    checks.append({
        "property_id": i,
        "quick_cmd": "bin/check %s quick" % i,
        "thorough_cmd": "bin/check %s thorough" % i,
        "evidence_file": "evidence/%s.json" % i,
        "replay_cmd_template": "bin/check %s quick --replay {path}" % i,
        "engine": "lean4-proof+correspondence",
        "level_claimed": {"category": "proof", "text": m['text'], "design_ref": "DESIGN.md section 5/%s, section 10, docs/%s.md" % (i, i)},
        "level_note": m['note'],
        "technique": m.get('technique', "Lean 4 machine-checked proof + regenerated facts/kernels + differential correspondence"),
    })
man = {"version": 1, "setup_cmd": "bin/setup",
       "hooks": {"guard": "verif", "enable": "go build -tags verif (harness module with replace => /repo); hook files are <pkg>/verif_hooks.go with //go:build verif",
                 "baseline_off_cmd": "cd /repo && go test -mod=mod -json -vet=off -count=1 -timeout 25m ./...",
                 "source_commits": hooks_commits, "add_only": True},
       "engines": [{"name": "lean4-proof+correspondence", "path": "bin/check", "serves_properties": [c['property_id'] for c in checks],
                    "kind_free_text": "Lean 4 theorems on executable models (lean/Nv/Props, lean/Nv/Tie); models tied to the source by regenerated facts/kernels (go/cmd/*/ extract, go/lib/go2lean) and by differential correspondence against the compiled Lean oracle plus property monitors on the real code (go/lib/corr)"}],
       "checks": checks, "not_applicable": na,
       "notes": "All checks: bin/check <id> <tier>. NV_REPO selects another source tree (default /repo). known_findings.json lists open findings and fixed: records."}
json.dump(man, open(os.path.join(V, 'MANIFEST.json'), 'w'), indent=1)
print("checks:", [c['property_id'] for c in checks])
