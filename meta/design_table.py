#!/usr/bin/env python3
"""Prints the per-property as-built summary table for DESIGN.md section 10 from evidence/*.json, meta/checks.json,
known_findings.json and seeded/RESULTS.tsv."""
import json, os, glob, re
V = os.path.dirname(os.path.dirname(os.path.abspath(__file__)))
meta = json.load(open(os.path.join(V, 'meta', 'checks.json')))
kf = json.load(open(os.path.join(V, 'known_findings.json')))
fixed = {}
for f in kf.get('fixed', []):
    m = re.search(r'property=(C\d+) (\w+)', f)
    if m:
        fixed.setdefault(m.group(1), []).append(m.group(2))
last = {}
p = os.path.join(V, 'seeded', 'RESULTS.tsv')
if os.path.exists(p):
    for l in open(p):
        f = l.rstrip('\n').split('\t')
        if len(f) >= 7:
            last[f[1]] = (f[2], int(f[5].split('=')[1]), int(f[6].split('=')[1]))
print("| id | theorems (Props+Tie) audited | tie obligations | quick: cases / ops / wall | fix commits | seeded: concrete / no-input / missed |")
print("|---|---|---|---|---|---|")
for i in range(1, 21):
    P = 'C%02d' % i
    ev = os.path.join(V, 'evidence', P + '.json')
    if not os.path.exists(ev):
        continue
    e = json.load(open(ev)); c = e['coverage']
    seeds = [(n, r) for n, r in last.items() if r[0] == P or n.startswith(P + '-')]
    conc = sum(1 for n, r in seeds if r[1] > r[2]); noin = sum(1 for n, r in seeds if r[1] > 0 and r[1] <= r[2]); miss = sum(1 for n, r in seeds if r[1] == 0)
    print("| %s | %d | %s | %d / %d / %.0f s (%s) | %s | %d / %d / %d |" % (
        P, c.get('discharged', 0), ", ".join(c.get('tie_obligations', [])[:6]) + (" …" if len(c.get('tie_obligations', [])) > 6 else ""),
        c.get('evaluations', 0), c.get('ops', 0), e.get('wall_s', 0), e.get('tier'), ", ".join(fixed.get(P, [])) or "—", conc, noin, miss))
