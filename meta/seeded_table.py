#!/usr/bin/env python3
"""Prints a markdown table of the seeded changes kept under seeded/ with the latest outcome of bin/seeded for each."""
import json, os, glob
V = os.path.dirname(os.path.dirname(os.path.abspath(__file__)))
last = {}
p = os.path.join(V, 'seeded', 'RESULTS.tsv')
if os.path.exists(p):
    for l in open(p):
        f = l.rstrip('\n').split('\t')
        if len(f) >= 7:
            last[f[1]] = f
print("| seed | property | change (what it needs to manifest) | outcome of the check |")
print("|---|---|---|---|")
for d in sorted(glob.glob(os.path.join(V, 'seeded', 'C*'))):
    n = os.path.basename(d)
    try:
        m = json.load(open(os.path.join(d, 'meta.json')))
    except Exception:
        continue
    r = last.get(n)
    if not r:
        out = "not run yet"
    else:
        v = int(r[5].split('=')[1]); nf = int(r[6].split('=')[1])
        if v == 0:
            out = "**missed** (PASS)"
        elif nf >= v:
            out = "tie broken, `no-failing-input-found`"
        else:
            out = "VIOLATION with concrete replay (%d)" % (v - nf)
    s = (m.get('summary', '') or '').replace('|', '/').replace('\n', ' ')
    nd = (m.get('needs_to_manifest', '') or '').replace('|', '/').replace('\n', ' ')
    print("| %s | %s | %s — *needs:* %s | %s |" % (n, m.get('property'), s[:220], nd[:200], out))
