#!/usr/bin/env python3
"""Prints a markdown table of the behaviour-preserving edits (negative controls) under negctl/ with the latest outcome."""
import json, os, glob
V = os.path.dirname(os.path.dirname(os.path.abspath(__file__)))
last = {}
p = os.path.join(V, 'negctl', 'RESULTS.tsv')
if os.path.exists(p):
    for l in open(p):
        f = l.rstrip('\n').split('\t')
        if len(f) >= 7:
            last[f[1]] = f
tot = {'pass': 0, 'stale': 0, 'false': 0, 'err': 0}
rows = []
for d in sorted(glob.glob(os.path.join(V, 'negctl', 'C*'))):
    n = os.path.basename(d)
    try:
        m = json.load(open(os.path.join(d, 'meta.json')))
    except Exception:
        continue
    r = last.get(n)
    if not r:
        out = "not run"
    else:
        rc = r[4]; v = int(r[5].split('=')[1]); nf = int(r[6].split('=')[1])
        if rc == 'rc=0':
            out = "PASS (no alarm)"; tot['pass'] += 1
        elif rc == 'rc=2':
            out = "harness error"; tot['err'] += 1
        elif v > nf:
            out = "**FALSE VIOLATION with a replay**"; tot['false'] += 1
        else:
            out = "tie reported stale: `no-failing-input-found`"; tot['stale'] += 1
    rows.append("| %s | %s | %s | %s |" % (n, m.get('kind', ''), (m.get('summary', '') or '').replace('|', '/').replace('\n', ' ')[:200], out))
print("Totals: %d edits — %d pass silently, %d end in `no-failing-input-found` (stale tie), %d concrete false violations, %d harness errors.\n" % (
    len(rows), tot['pass'], tot['stale'], tot['false'], tot['err']))
print("| edit | kind | summary | outcome |")
print("|---|---|---|---|")
print("\n".join(rows))
